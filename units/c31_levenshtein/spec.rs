// ---------- spec lemmas (code-independent) ----------
// lemmas on lev
pub proof fn lev_del(a: Seq<u16>, b: Seq<u16>, i: nat, j: nat)
    requires i > 0
    ensures lev(a, b, i, j) <= lev(a, b, (i - 1) as nat, j) + 1
{ }
pub proof fn lev_ins(a: Seq<u16>, b: Seq<u16>, i: nat, j: nat)
    requires j > 0
    ensures lev(a, b, i, j) <= lev(a, b, i, (j - 1) as nat) + 1
{ }
pub proof fn lev_le_sum(a: Seq<u16>, b: Seq<u16>, i: nat, j: nat)
    ensures lev(a, b, i, j) <= i + j
    decreases i + j
{
    if i > 0 && j > 0 { lev_le_sum(a, b, (i - 1) as nat, j); }
}
/// dropping the last element of the second prefix changes the distance by at most one
pub proof fn lev_step_j(a: Seq<u16>, b: Seq<u16>, i: nat, j: nat)
    requires j > 0
    ensures lev(a, b, i, (j - 1) as nat) <= lev(a, b, i, j) + 1
    decreases i + j
{
    if i > 0 {
        lev_step_j(a, b, (i - 1) as nat, j);
        lev_del(a, b, i, (j - 1) as nat);
    }
}
pub proof fn lev_step_i(a: Seq<u16>, b: Seq<u16>, i: nat, j: nat)
    requires i > 0
    ensures lev(a, b, (i - 1) as nat, j) <= lev(a, b, i, j) + 1
    decreases i + j
{
    if j > 0 {
        lev_step_i(a, b, i, (j - 1) as nat);
        lev_ins(a, b, (i - 1) as nat, j);
    }
}
/// when the last characters are equal the diagonal is optimal
pub proof fn lev_eq_diag(a: Seq<u16>, b: Seq<u16>, i: nat, j: nat)
    requires i > 0, j > 0, a[i - 1] == b[j - 1]
    ensures lev(a, b, i, j) == lev(a, b, (i - 1) as nat, (j - 1) as nat)
{
    lev_step_j(a, b, (i - 1) as nat, j);
    lev_step_i(a, b, i, (j - 1) as nat);
}
/// every well-formed script costs at least lev: lev is the minimal edit distance
pub proof fn lev_lower_bound(ops: Seq<EditOp>, a: Seq<u16>, b: Seq<u16>, i: nat, j: nat)
    requires script_ok(ops, a, b, i, j), i <= a.len(), j <= b.len()
    ensures cost(ops) + lev(a, b, i, j) >= lev(a, b, a.len(), b.len())
    decreases ops.len()
{
    if ops.len() > 0 {
        match ops[0] {
            EditOp::Keep => { lev_lower_bound(ops.skip(1), a, b, i + 1, j + 1); }
            EditOp::Replace => { lev_lower_bound(ops.skip(1), a, b, i + 1, j + 1); }
            EditOp::Insert => { lev_lower_bound(ops.skip(1), a, b, i, j + 1); lev_ins(a, b, i, j + 1); }
            EditOp::Delete => { lev_lower_bound(ops.skip(1), a, b, i + 1, j); lev_del(a, b, i + 1, j); }
        }
    }
}

/// cell (x, y) of the tables is consistent
pub open spec fn cell_ok(d: Seq<Vec<usize>>, ops: Seq<Vec<EditOp>>, a: Seq<u16>, b: Seq<u16>, x: int, y: int) -> bool {
    &&& d[x][y] as nat == lev(a, b, x as nat, y as nat)
    &&& (x > 0 || y > 0) ==> match ops[x][y] {
        EditOp::Keep => x > 0 && y > 0 && a[x - 1] == b[y - 1] && d[x][y] == d[x - 1][y - 1],
        EditOp::Replace => x > 0 && y > 0 && d[x][y] == d[x - 1][y - 1] + 1,
        EditOp::Insert => y > 0 && d[x][y] == d[x][y - 1] + 1,
        EditOp::Delete => x > 0 && d[x][y] == d[x - 1][y] + 1,
    }
}
pub open spec fn shape<T>(t: Seq<Vec<T>>, n: int, m: int) -> bool {
    t.len() == n + 1 && forall|x: int| 0 <= x <= n ==> (#[trigger] t[x]).len() == m + 1
}
/// r (the ops pushed so far while walking back from (n, m) to (i, j)), read from its END,
/// is a script from (i, j) to (n, m)
pub open spec fn back_ok(r: Seq<EditOp>, a: Seq<u16>, b: Seq<u16>, i: nat, j: nat) -> bool
    decreases r.len()
{
    if r.len() == 0 { i == a.len() && j == b.len() } else {
        match r.last() {
            EditOp::Keep => i < a.len() && j < b.len() && a[i as int] == b[j as int] && back_ok(r.drop_last(), a, b, i + 1, j + 1),
            EditOp::Replace => i < a.len() && j < b.len() && back_ok(r.drop_last(), a, b, i + 1, j + 1),
            EditOp::Insert => j < b.len() && back_ok(r.drop_last(), a, b, i, j + 1),
            EditOp::Delete => i < a.len() && back_ok(r.drop_last(), a, b, i + 1, j),
        }
    }
}
pub open spec fn back_cost(r: Seq<EditOp>) -> nat decreases r.len() {
    if r.len() == 0 { 0 } else { cost1(r.last()) + back_cost(r.drop_last()) }
}
pub proof fn back_is_script(r: Seq<EditOp>, a: Seq<u16>, b: Seq<u16>, i: nat, j: nat)
    requires back_ok(r, a, b, i, j)
    ensures script_ok(r.reverse(), a, b, i, j), cost(r.reverse()) == back_cost(r)
    decreases r.len()
{
    let s = r.reverse();
    if r.len() > 0 {
        assert(s[0] == r.last());
        assert(s.skip(1) =~= r.drop_last().reverse());
        match r.last() {
            EditOp::Keep => back_is_script(r.drop_last(), a, b, i + 1, j + 1),
            EditOp::Replace => back_is_script(r.drop_last(), a, b, i + 1, j + 1),
            EditOp::Insert => back_is_script(r.drop_last(), a, b, i, j + 1),
            EditOp::Delete => back_is_script(r.drop_last(), a, b, i + 1, j),
        }
    }
}
pub proof fn all_same_script(ops: Seq<EditOp>, a: Seq<u16>, b: Seq<u16>, i: nat, j: nat, ins: bool)
    requires
        forall|x: int| 0 <= x < ops.len() ==> ops[x] == (if ins { EditOp::Insert } else { EditOp::Delete }),
        ins ==> i == a.len() && j + ops.len() == b.len(),
        !ins ==> j == b.len() && i + ops.len() == a.len(),
    ensures script_ok(ops, a, b, i, j), cost(ops) == ops.len()
    decreases ops.len()
{
    if ops.len() > 0 {
        if ins { all_same_script(ops.skip(1), a, b, i, j + 1, ins); } else { all_same_script(ops.skip(1), a, b, i + 1, j, ins); }
    }
}


pub open spec fn all_op(ops: Seq<EditOp>, op: EditOp) -> bool { forall|x: int| 0 <= x < ops.len() ==> ops[x] == op }
pub proof fn all_same_lemma(a: Seq<u16>, b: Seq<u16>)
    ensures
        a.len() == 0 ==> forall|ops: Seq<EditOp>| ops.len() == b.len() && all_op(ops, EditOp::Insert) ==> #[trigger] script_ok(ops, a, b, 0, 0),
        a.len() == 0 ==> forall|ops: Seq<EditOp>| ops.len() == b.len() && all_op(ops, EditOp::Insert) ==> #[trigger] cost(ops) == ops.len(),
        b.len() == 0 ==> forall|ops: Seq<EditOp>| ops.len() == a.len() && all_op(ops, EditOp::Delete) ==> #[trigger] script_ok(ops, a, b, 0, 0),
        b.len() == 0 ==> forall|ops: Seq<EditOp>| ops.len() == a.len() && all_op(ops, EditOp::Delete) ==> #[trigger] cost(ops) == ops.len(),
{
    if a.len() == 0 {
        assert forall|ops: Seq<EditOp>| ops.len() == b.len() && all_op(ops, EditOp::Insert) implies #[trigger] script_ok(ops, a, b, 0, 0) by {
            all_same_script(ops, a, b, 0, 0, true);
        }
        assert forall|ops: Seq<EditOp>| ops.len() == b.len() && all_op(ops, EditOp::Insert) implies #[trigger] cost(ops) == ops.len() by {
            all_same_script(ops, a, b, 0, 0, true);
        }
    }
    if b.len() == 0 {
        assert forall|ops: Seq<EditOp>| ops.len() == a.len() && all_op(ops, EditOp::Delete) implies #[trigger] script_ok(ops, a, b, 0, 0) by {
            all_same_script(ops, a, b, 0, 0, false);
        }
        assert forall|ops: Seq<EditOp>| ops.len() == a.len() && all_op(ops, EditOp::Delete) implies #[trigger] cost(ops) == ops.len() by {
            all_same_script(ops, a, b, 0, 0, false);
        }
    }
}

