// Native witness search / replay for unit c31_levenshtein (NOT the deciding step, see DESIGN.md 3.6).
// `plain.rs` is the text extracted from /repo on this run (rules applied, no contract splices).
#![allow(warnings)]
fn assert(c: bool) { if !c { panic!("debug assertion (R2) failed") } }
fn fmt_opaque() -> String { String::new() }
include!("plain.rs");

// executable rendering of the contract (spec.rs): lev, script_ok, cost
fn lev(a: &[u16], b: &[u16]) -> usize {
    let (n, m) = (a.len(), b.len());
    let mut t = vec![vec![0usize; m + 1]; n + 1];
    for i in 0..=n { for j in 0..=m {
        t[i][j] = if i == 0 { j } else if j == 0 { i } else {
            let d = if a[i - 1] == b[j - 1] { 0 } else { 1 };
            (t[i - 1][j] + 1).min(t[i][j - 1] + 1).min(t[i - 1][j - 1] + d)
        };
    } }
    t[n][m]
}
fn script_ok(ops: &[EditOp], a: &[u16], b: &[u16]) -> bool {
    let (mut i, mut j) = (0usize, 0usize);
    for op in ops {
        match op {
            EditOp::Keep => { if !(i < a.len() && j < b.len() && a[i] == b[j]) { return false; } i += 1; j += 1; }
            EditOp::Replace => { if !(i < a.len() && j < b.len()) { return false; } i += 1; j += 1; }
            EditOp::Insert => { if !(j < b.len()) { return false; } j += 1; }
            EditOp::Delete => { if !(i < a.len()) { return false; } i += 1; }
        }
    }
    i == a.len() && j == b.len()
}
fn cost(ops: &[EditOp]) -> usize { ops.iter().filter(|o| !matches!(o, EditOp::Keep)).count() }

fn violation(a: &[u16], b: &[u16]) -> Option<String> {
    let (aa, bb) = (a.to_vec(), b.to_vec());
    let r = std::panic::catch_unwind(move || Recovery::levenshtein_distance(&aa, &bb));
    match r {
        Err(_) => Some("panic".to_string()),
        Ok((d, ops)) => {
            if !script_ok(&ops, a, b) { return Some(format!("script does not turn act into exp (distance {} ops {})", d, ops.len())); }
            if cost(&ops) != d { return Some(format!("non-keep ops {} != reported distance {}", cost(&ops), d)); }
            if d != lev(a, b) { return Some(format!("reported distance {} != minimal edit distance {}", d, lev(a, b))); }
            None
        }
    }
}
fn seqs(alpha: u16, maxlen: usize) -> Vec<Vec<u16>> {
    let mut out = vec![vec![]];
    let mut cur: Vec<Vec<u16>> = vec![vec![]];
    for _ in 0..maxlen {
        let mut next = vec![];
        for s in &cur { for c in 0..alpha { let mut t = s.clone(); t.push(if c == 0 { 0 } else { c + 4 }); /* alphabet {0 (EOI), 5, 6, ..} */ next.push(t); } }
        out.extend(next.iter().cloned());
        cur = next;
    }
    out
}
fn parse_list(s: &str, key: &str) -> Vec<u16> {
    let k = format!("\"{}\"", key);
    let p = s.find(&k).expect("key");
    let rest = &s[p..];
    let lb = rest.find('[').unwrap();
    let rb = rest.find(']').unwrap();
    rest[lb + 1..rb].split(',').filter_map(|x| x.trim().parse().ok()).collect()
}
fn main() {
    std::panic::set_hook(Box::new(|_| {}));
    let args: Vec<String> = std::env::args().collect();
    if args[1] == "search" {
        let alpha: u16 = args[2].parse().unwrap();
        let maxlen: usize = args[3].parse().unwrap();
        let all = seqs(alpha, maxlen);
        let mut n = 0u64;
        for a in &all { for b in &all {
            n += 1;
            if let Some(why) = violation(a, b) {
                println!("WITNESS {{\"act\":{:?},\"exp\":{:?},\"why\":\"{}\"}}", a, b, why);
                return;
            }
        } }
        // long inputs at machine-width boundaries (a cell type narrower than usize, e.g. u8, shows only at >= 256 edits):
        // runs of one symbol against runs of another / of the same symbol, and a periodic pattern
        let lens = [0usize, 1, 2, 127, 128, 129, 255, 256, 257, 300, 513];
        for &la in &lens { for &lb in &lens {
            for pat in 0..3 {
                let a: Vec<u16> = (0..la).map(|i| if pat == 2 { 5 + (i % 3) as u16 } else { 5 }).collect();
                let b: Vec<u16> = (0..lb).map(|i| match pat { 0 => 6, 1 => 5, _ => 5 + (i % 2) as u16 }).collect();
                n += 1;
                if let Some(why) = violation(&a, &b) {
                    println!("WITNESS {{\"act\":{:?},\"exp\":{:?},\"why\":\"{}\"}}", a, b, why);
                    return;
                }
            }
        } }
        println!("NONE cases={}", n);
    } else {
        let a = parse_list(&args[2], "act");
        let b = parse_list(&args[2], "exp");
        match violation(&a, &b) {
            Some(why) => { println!("levenshtein_distance({:?}, {:?}) violates the contract: {}", a, b, why); std::process::exit(1); }
            None => { println!("levenshtein_distance({:?}, {:?}) satisfies the contract", a, b); }
        }
    }
}
