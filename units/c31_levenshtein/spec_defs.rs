// ---------- spec definitions (shared with unit ts_stream, which uses script_ok as the callee contract of levenshtein_distance) ----------
pub open spec fn min2(a: nat, b: nat) -> nat { if a <= b { a } else { b } }
pub open spec fn min3(a: nat, b: nat, c: nat) -> nat { min2(a, min2(b, c)) }
pub open spec fn delta(x: u16, y: u16) -> nat { if x == y { 0 } else { 1 } }

/// Wagner-Fischer edit distance of the prefixes a[..i], b[..j]
pub open spec fn lev(a: Seq<u16>, b: Seq<u16>, i: nat, j: nat) -> nat
    decreases i + j
{
    if i == 0 { j } else if j == 0 { i } else {
        min3(lev(a, b, (i - 1) as nat, j) + 1,
             lev(a, b, i, (j - 1) as nat) + 1,
             lev(a, b, (i - 1) as nat, (j - 1) as nat) + delta(a[i - 1], b[j - 1]))
    }
}

pub open spec fn cost1(op: EditOp) -> nat { match op { EditOp::Keep => 0, _ => 1 } }
pub open spec fn cost(ops: Seq<EditOp>) -> nat decreases ops.len() {
    if ops.len() == 0 { 0 } else { cost1(ops[0]) + cost(ops.skip(1)) }
}
/// ops, read left to right starting at positions (i, j), is a well-formed edit script that
/// turns a[i..] into b[j..]
pub open spec fn script_ok(ops: Seq<EditOp>, a: Seq<u16>, b: Seq<u16>, i: nat, j: nat) -> bool
    decreases ops.len()
{
    if ops.len() == 0 { i == a.len() && j == b.len() } else {
        match ops[0] {
            EditOp::Keep => i < a.len() && j < b.len() && a[i as int] == b[j as int] && script_ok(ops.skip(1), a, b, i + 1, j + 1),
            EditOp::Replace => i < a.len() && j < b.len() && script_ok(ops.skip(1), a, b, i + 1, j + 1),
            EditOp::Insert => j < b.len() && script_ok(ops.skip(1), a, b, i, j + 1),
            EditOp::Delete => i < a.len() && script_ok(ops.skip(1), a, b, i + 1, j),
        }
    }
}

