// ---------------- trusted border of unit c19_add_error: opaque types the real LLKParser / SyntaxError structs mention ----------------
#[verifier::external_type_specification]
#[verifier::external_body]
pub struct ExPathBuf(PathBuf);
#[verifier::external_body] pub struct FileSource { _x: u8 }
#[verifier::external_body] pub struct UnexpectedToken { _x: u8 }
#[verifier::external_body] pub struct TokenVec { _x: u8 }
#[verifier::external_body] pub struct ParolError { _x: u8 }
#[verifier::external_body] pub struct ParseStack { _x: u8 }
#[verifier::external_body] pub struct LookaheadDFA { _x: u8 }
#[verifier::external_body] pub struct Production { _x: u8 }
#[verifier::external_body] pub struct ParseTreeType<'t> { _x: &'t u8 }
#[verifier::external_body] #[verifier::reject_recursive_types(T)] pub struct ParseTreeStack<T> { _x: Vec<T> }
/// the two variants add_error constructs (the real ParserError has more)
pub enum ParserError { RecoveryFailed, TooManyErrors { count: usize } }
impl From<ParserError> for ParolError {
    #[verifier::external_body]
    fn from(e: ParserError) -> (r: ParolError) { unimplemented!() }
}
pub type Result<T> = std::result::Result<T, ParolError>;
/// derived PartialEq of Location (R6 drops the derive); its result is left unspecified
impl PartialEq for Location {
    #[verifier::external_body]
    fn eq(&self, o: &Self) -> bool { unimplemented!() }
}
