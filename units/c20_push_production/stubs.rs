// ---------------- trusted border of unit c20_push_production ----------------
#[verifier::external_body] pub struct Token<'t> { _x: &'t u8 }
#[verifier::external_body] pub struct ParolError { _x: u8 }
#[verifier::external_body] pub struct LookaheadDFA { _x: u8 }
#[verifier::external_body] pub struct SyntaxError { _x: u8 }
/// the variant push_production constructs (the real ParserError has more)
pub enum ParserError { MaxParsingDepthExceeded { depth: usize } }
impl From<ParserError> for ParolError {
    #[verifier::external_body]
    fn from(e: ParserError) -> (r: ParolError) { unimplemented!() }
}
pub type Result<T> = std::result::Result<T, ParolError>;
/// the parse tree stack: push is proved in unit c14_parse_tree_stack; here its effect is irrelevant (opaque)
#[verifier::external_body] #[verifier::reject_recursive_types(T)] pub struct ParseTreeStack<T> { _x: Vec<T> }
impl<T> ParseTreeStack<T> {
    #[verifier::external_body]
    pub fn push(&mut self, node: T) { unimplemented!() }
}
/// the tree builder interface: the two methods push_production may call (error type opaque)
pub trait TreeConstruct<'t> {
    type Error;
    type Tree;
    fn open_non_terminal(&mut self, name: &'static str, size_hint: Option<usize>) -> std::result::Result<(), Self::Error>;
    fn close_non_terminal(&mut self) -> std::result::Result<(), Self::Error>;
}
