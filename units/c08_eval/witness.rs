// Native witness search / replay for unit c08_eval (NOT the deciding step, see DESIGN.md 3.6).
// `plain.rs` is the text of `LookaheadDFA::eval` and its types extracted from /repo on this run
// (rules R1,R2,R3,R5,R6 applied, no contract splices).  The token stream is the 10-line in-memory
// source below, which implements exactly the trusted border contract of stubs.rs.
#![allow(warnings)]
fn assert(c: bool) { if !c { panic!("debug assertion (R2) failed") } }
fn fmt_opaque() -> String { String::new() }
pub struct LexerError;
#[derive(Debug)]
pub enum ParolError { Parser(ParserError), Lexer }
#[derive(Debug)]
pub enum ParserError { DataError(&'static str), PredictionError { cause: String } }
impl From<ParserError> for ParolError { fn from(e: ParserError) -> Self { ParolError::Parser(e) } }
impl From<LexerError> for ParolError { fn from(_: LexerError) -> Self { ParolError::Lexer } }
pub struct TokenStream<'t, F> { pub k: usize, la: Vec<u16>, _p: std::marker::PhantomData<&'t F> }
impl<'t, F> TokenStream<'t, F> {
    pub fn lookahead_token_type(&mut self, n: usize) -> Result<TerminalIndex, LexerError> {
        if n < self.k && n < self.la.len() { Ok(self.la[n]) } else { Err(LexerError) }
    }
}
include!("plain.rs");

// executable rendering of spec.rs: predict = strict walk along la[0..k]
fn predict(d: &LookaheadDFA, la: &[u16]) -> i64 {
    let mut cur = d.prod0 as i64;
    let mut state = 0usize;
    let mut j = 0;
    while j < d.k && j < la.len() {
        match d.transitions.iter().find(|t| t.0 == state && t.1 == la[j]) {
            None => break,
            Some(t) => { state = t.2; if t.3 > -1 { cur = t.3 as i64; } }
        }
        j += 1;
    }
    cur
}
type Fx = fn(char) -> Option<usize>;
fn violation(prod0: i32, tr: &[(usize, u16, usize, i32)], k: usize, la: &[u16]) -> Option<String> {
    let leaked: &'static [Trans] = Box::leak(tr.iter().map(|t| Trans(t.0, t.1, t.2, t.3)).collect::<Vec<_>>().into_boxed_slice());
    let d = LookaheadDFA { prod0, transitions: leaked, k };
    let want = predict(&d, la);
    let la2 = la.to_vec();
    let r = std::panic::catch_unwind(move || {
        let mut ts: TokenStream<'_, Fx> = TokenStream { k: la2.len(), la: la2, _p: std::marker::PhantomData };
        let d = LookaheadDFA { prod0, transitions: leaked, k };
        d.eval(&mut ts, 0)
    });
    let out = match r {
        Err(_) => Some("panic".to_string()),
        Ok(Ok(p)) => if want > -1 && p as i64 == want { None } else {
            Some(format!("eval returned Ok({}) but the lookahead begins with {}", p, if want > -1 { format!("a lookahead string of production {}", want) } else { "no lookahead string of any production".to_string() })) },
        Ok(Err(e)) => if want == -1 { None } else { Some(format!("eval returned an error but production {} is predictable", want)) },
    };
    unsafe { drop(Box::from_raw(leaked as *const [Trans] as *mut [Trans])); }
    out
}
fn wf(prod0: i32, tr: &[(usize, u16, usize, i32)]) -> bool {
    (prod0 <= -1 || tr.is_empty()) && tr.windows(2).all(|w| (w[0].0, w[0].1) < (w[1].0, w[1].1))
}
fn fmt_case(prod0: i32, tr: &[(usize, u16, usize, i32)], k: usize, la: &[u16], why: &str) -> String {
    let t: Vec<String> = tr.iter().map(|t| format!("[{},{},{},{}]", t.0, t.1, t.2, t.3)).collect();
    format!("{{\"prod0\":[{}],\"k\":[{}],\"la\":{:?},\"transitions\":[{}],\"why\":\"{}\"}}", prod0, k, la, t.join(","), why)
}
/// token alphabet of the search: two ordinary user tokens and one above 255 (a packed or truncated key must not alias it)
fn term(i: u16) -> u16 { [5u16, 6, 261, 7, 0][i as usize % 5] }
fn search(nstates: usize, maxtr: usize, maxk: usize, nterm: u16) -> Option<String> {
    let mut keys = vec![];
    for f in 0..nstates { for t in 0..nterm { keys.push((f, term(t))); } }
    let mut las: Vec<Vec<u16>> = vec![];
    for k in 0..=maxk {
        let mut cur: Vec<Vec<u16>> = vec![vec![]];
        for _ in 0..k { let mut nx = vec![]; for s in &cur { for c in 0..nterm { let mut t = s.clone(); t.push(term(c)); nx.push(t); } } cur = nx; }
        las.extend(cur);
    }
    let mut count = 0u64;
    // prod0-only automata
    for p0 in 0..2 { for la in &las { for k in 0..=la.len() { count += 1; if let Some(w) = violation(p0, &[], k, la) { return Some(fmt_case(p0, &[], k, la, &w)); } } } }
    fn rec(keys: &[(usize, u16)], start: usize, cur: &mut Vec<(usize, u16, usize, i32)>, maxtr: usize, nstates: usize, las: &[Vec<u16>], count: &mut u64) -> Option<String> {
        if !cur.is_empty() {
            for la in las { for k in 0..=la.len() {
                *count += 1;
                if let Some(w) = violation(-1, cur, k, la) { return Some(fmt_case(-1, cur, k, la, &w)); }
            } }
        }
        if cur.len() == maxtr { return None; }
        for i in start..keys.len() {
            for to in 0..nstates { for p in -1..2 {
                cur.push((keys[i].0, keys[i].1, to, p));
                if let Some(w) = rec(keys, i + 1, cur, maxtr, nstates, las, count) { return Some(w); }
                cur.pop();
            } }
        }
        None
    }
    let mut cur = vec![];
    let r = rec(&keys, 0, &mut cur, maxtr, nstates, &las, &mut count);
    if r.is_none() { println!("NONE cases={}", count); }
    r
}
fn nums(s: &str, key: &str) -> Vec<i64> {
    let k = format!("\"{}\"", key);
    let p = s.find(&k).expect("key");
    let rest = &s[p + k.len()..];
    let lb = rest.find('[').unwrap();
    // matching bracket
    let mut depth = 0; let mut end = lb;
    for (i, c) in rest.char_indices().skip(lb) { if c == '[' { depth += 1; } if c == ']' { depth -= 1; if depth == 0 { end = i; break; } } }
    rest[lb..=end].split(|c: char| !(c.is_ascii_digit() || c == '-')).filter(|x| !x.is_empty()).map(|x| x.parse().unwrap()).collect()
}
fn main() {
    std::panic::set_hook(Box::new(|_| {}));
    let args: Vec<String> = std::env::args().collect();
    if args[1] == "search" {
        let a: Vec<usize> = args[2..].iter().map(|x| x.parse().unwrap()).collect();
        if let Some(w) = search(a[0], a[1], a[2], a[3] as u16) { println!("WITNESS {}", w); }
    } else {
        let s = &args[2];
        let prod0 = nums(s, "prod0")[0] as i32;
        let k = nums(s, "k")[0] as usize;
        let la: Vec<u16> = nums(s, "la").iter().map(|x| *x as u16).collect();
        let t = nums(s, "transitions");
        let tr: Vec<(usize, u16, usize, i32)> = t.chunks(4).map(|c| (c[0] as usize, c[1] as u16, c[2] as usize, c[3] as i32)).collect();
        if !wf(prod0, &tr) { println!("recorded automaton is not well-formed"); std::process::exit(2); }
        match violation(prod0, &tr, k, &la) {
            Some(why) => { println!("LookaheadDFA{{prod0:{}, transitions:{:?}, k:{}}}.eval on lookahead {:?} violates the contract: {}", prod0, tr, k, la, why); std::process::exit(1); }
            None => println!("LookaheadDFA{{prod0:{}, transitions:{:?}, k:{}}}.eval on lookahead {:?} satisfies the contract", prod0, tr, k, la),
        }
    }
}
