// ---------------- trusted border ----------------
#[verifier::external_body]
pub struct LexerError { _x: u8 }
#[verifier::external_body]
pub struct ParolError { _x: u8 }
pub enum ParserError {
    DataError(&'static str),
    PredictionError { cause: String },
}
pub uninterp spec fn is_prediction_error(e: ParolError) -> bool;
impl From<ParserError> for ParolError {
    #[verifier::external_body]
    fn from(e: ParserError) -> (r: ParolError)
        ensures is_prediction_error(r) <==> e is PredictionError
    { unimplemented!() }
}
impl From<LexerError> for ParolError {
    #[verifier::external_body]
    fn from(e: LexerError) -> (r: ParolError)
        ensures !is_prediction_error(r)
    { unimplemented!() }
}
#[verifier::external_body]
pub fn fmt_opaque() -> String { unimplemented!() }

#[verifier::reject_recursive_types(F)]
pub struct TokenStream<'t, F> {
    pub k: usize,
    pub la: Ghost<Seq<u16>>,
    pub failed: Ghost<bool>,
    pub _p: std::marker::PhantomData<&'t F>,
}
impl<'t, F> TokenStream<'t, F> {
    #[verifier::external_body]
    pub fn lookahead_token_type(&mut self, n: usize) -> (r: Result<TerminalIndex, LexerError>)
        ensures
            final(self).k == old(self).k,
            final(self).la@ == old(self).la@,
            r is Err ==> final(self).failed@,
            r is Ok ==> final(self).failed@ == old(self).failed@,
            r is Ok ==> n < old(self).k && n < old(self).la@.len() && r->Ok_0 == old(self).la@[n as int],
    { unimplemented!() }
}

