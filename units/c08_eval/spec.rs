// ---------------- spec ----------------
pub open spec fn key_lt(x: Trans, y: Trans) -> bool { x.0 < y.0 || (x.0 == y.0 && x.1 < y.1) }
pub open spec fn dfa_wf(d: &LookaheadDFA) -> bool {
    &&& forall|i: int, j: int| 0 <= i < j < d.transitions@.len() ==> key_lt(d.transitions@[i], d.transitions@[j])
    &&& forall|i: int| 0 <= i < d.transitions@.len() ==> (#[trigger] d.transitions@[i]).3 >= -1
    &&& d.prod0 >= -1
    &&& d.prod0 > -1 ==> d.transitions@.len() == 0
}
/// index of the transition (s, t, _, _), or -1
pub open spec fn find(tr: Seq<Trans>, s: usize, t: u16, lo: int) -> int
    decreases tr.len() - lo
{
    if lo < 0 || lo >= tr.len() { -1 } else if tr[lo].0 == s && tr[lo].1 == t { lo } else { find(tr, s, t, lo + 1) }
}
/// production predicted by walking the automaton strictly along la[j..k], starting in `state`
/// with `cur` the production of the longest accepting prefix so far (or -1)
pub open spec fn best(d: &LookaheadDFA, la: Seq<u16>, j: nat, state: usize, cur: int) -> int
    decreases d.k - j
{
    if j >= d.k || j >= la.len() { cur } else {
        let idx = find(d.transitions@, state, la[j as int], 0);
        if idx < 0 { cur } else {
            let p = d.transitions@[idx].3;
            best(d, la, j + 1, d.transitions@[idx].2, if p > -1 { p as int } else { cur })
        }
    }
}
pub open spec fn predict(d: &LookaheadDFA, la: Seq<u16>) -> int { best(d, la, 0, 0, d.prod0 as int) }

pub proof fn find_none(tr: Seq<Trans>, s: usize, t: u16, lo: int)
    requires 0 <= lo, forall|x: int| lo <= x < tr.len() ==> !(tr[x].0 == s && tr[x].1 == t)
    ensures find(tr, s, t, lo) == -1
    decreases tr.len() - lo
{ if lo < tr.len() { find_none(tr, s, t, lo + 1); } }
pub proof fn find_some(tr: Seq<Trans>, s: usize, t: u16, lo: int, at: int)
    requires 0 <= lo <= at < tr.len(), tr[at].0 == s, tr[at].1 == t,
        forall|x: int| lo <= x < at ==> !(tr[x].0 == s && tr[x].1 == t)
    ensures find(tr, s, t, lo) == at
    decreases at - lo
{ if lo < at { find_some(tr, s, t, lo + 1, at); } }



// ---------------- property-level reading of `predict` ----------------
/// state reached after consuming la[0..j], if every step exists
pub open spec fn run(d: &LookaheadDFA, la: Seq<u16>, j: nat) -> Option<usize>
    decreases j
{
    if j == 0 { Some(0usize) } else if j > la.len() { None } else {
        match run(d, la, (j - 1) as nat) {
            None => None,
            Some(s) => { let idx = find(d.transitions@, s, la[j - 1], 0);
                         if idx < 0 { None } else { Some(d.transitions@[idx].2) } }
        }
    }
}
/// production attached to the state reached after j tokens
pub open spec fn prod_at(d: &LookaheadDFA, la: Seq<u16>, j: nat) -> int
    recommends run(d, la, j) is Some
{
    if j == 0 { d.prod0 as int } else {
        let s = run(d, la, (j - 1) as nat)->Some_0;
        d.transitions@[find(d.transitions@, s, la[j - 1], 0)].3 as int
    }
}
/// "the upcoming tokens begin with a lookahead string (of length j) of production p"
pub open spec fn begins_with_la_string_of(d: &LookaheadDFA, la: Seq<u16>, j: nat, p: int) -> bool {
    j <= d.k && j <= la.len() && run(d, la, j) is Some && prod_at(d, la, j) == p && p > -1
}
/// production of the longest accepting prefix of length <= j, or -1
pub open spec fn lp(d: &LookaheadDFA, la: Seq<u16>, j: nat) -> int
    decreases j
{
    if j == 0 { if d.prod0 > -1 { d.prod0 as int } else { -1 } }
    else if run(d, la, j) is Some && prod_at(d, la, j) > -1 { prod_at(d, la, j) }
    else { lp(d, la, (j - 1) as nat) }
}
pub proof fn run_none_mono(d: &LookaheadDFA, la: Seq<u16>, i: nat, j: nat)
    requires i <= j, run(d, la, i) is None
    ensures run(d, la, j) is None
    decreases j
{ if i < j { run_none_mono(d, la, i, (j - 1) as nat); } }

pub proof fn best_is_lp(d: &LookaheadDFA, la: Seq<u16>, j: nat, state: usize)
    requires dfa_wf(d), la.len() >= d.k, j <= d.k, run(d, la, j) == Some(state)
    ensures best(d, la, j, state, lp(d, la, j)) == lp(d, la, d.k as nat)
    decreases d.k - j
{
    if j < d.k {
        let idx = find(d.transitions@, state, la[j as int], 0);
        if idx < 0 {
            assert(run(d, la, j + 1) is None);
            lp_const(d, la, j, d.k as nat);
        } else {
            find_range(d.transitions@, state, la[j as int], 0);
            assert(run(d, la, j + 1) == Some(d.transitions@[idx].2));
            best_is_lp(d, la, j + 1, d.transitions@[idx].2);
        }
    }
}
pub proof fn find_range(tr: Seq<Trans>, s: usize, t: u16, lo: int)
    requires 0 <= lo
    ensures find(tr, s, t, lo) == -1 || (lo <= find(tr, s, t, lo) < tr.len())
    decreases tr.len() - lo
{ if lo < tr.len() { find_range(tr, s, t, lo + 1); } }
/// once the run is undefined at j+1, lp stays constant
pub proof fn lp_const(d: &LookaheadDFA, la: Seq<u16>, j: nat, m: nat)
    requires j <= m, run(d, la, j + 1) is None
    ensures lp(d, la, m) == lp(d, la, j)
    decreases m
{
    if j < m { run_none_mono(d, la, j + 1, m); lp_const(d, la, j, (m - 1) as nat); }
}
pub proof fn lp_sound(d: &LookaheadDFA, la: Seq<u16>, j: nat)
    requires dfa_wf(d), la.len() >= d.k, j <= d.k
    ensures
        lp(d, la, j) > -1 ==> exists|i: nat| i <= j && #[trigger] begins_with_la_string_of(d, la, i, lp(d, la, j)),
        lp(d, la, j) == -1 ==> forall|i: nat, p: int| i <= j ==> !#[trigger] begins_with_la_string_of(d, la, i, p),
        lp(d, la, j) >= -1,
    decreases j
{
    if j == 0 {
        if d.prod0 > -1 { assert(begins_with_la_string_of(d, la, 0, d.prod0 as int)); }
    } else {
        lp_sound(d, la, (j - 1) as nat);
        if run(d, la, j) is Some && prod_at(d, la, j) > -1 {
            assert(begins_with_la_string_of(d, la, j, prod_at(d, la, j)));
        } else {
            if lp(d, la, j) > -1 {
                let i = choose|i: nat| i <= (j - 1) as nat && #[trigger] begins_with_la_string_of(d, la, i, lp(d, la, (j - 1) as nat));
                assert(begins_with_la_string_of(d, la, i, lp(d, la, j)));
            }
        }
    }
}
/// The contract of `eval` in the words of the property
pub proof fn predict_means(d: &LookaheadDFA, la: Seq<u16>)
    requires dfa_wf(d), la.len() >= d.k
    ensures
        predict(d, la) > -1 ==> exists|i: nat| begins_with_la_string_of(d, la, i, predict(d, la)),
        predict(d, la) <= -1 ==> forall|i: nat, p: int| !begins_with_la_string_of(d, la, i, p),
{
    best_is_lp(d, la, 0, 0);
    lp_sound(d, la, d.k as nat);
    assert(lp(d, la, 0) == d.prod0 as int);
}

