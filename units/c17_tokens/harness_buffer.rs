
// ======================================================================================================
// Hand-written harness module of unit c17_tokens, appended to the verbatim token_buffer.rs.
// These harnesses bound the NUMBER OF TOKENS in the buffer (stated per harness): they are bounded checks,
// labelled bounded and never counted as proved.  Token type and state-skip flag of every token are fully
// symbolic; token numbers serve as identity tags.  The oracle `skip` is independent of the code's own
// classification.
// ======================================================================================================
#[cfg(kani)]
mod verif {
    use super::*;
    fn mk(t: u16, s: bool, num: u32) -> Token<'static> {
        let mut x = Token::default().with_type(t).with_state_skip(s);
        x.token_number = num;
        x
    }
    fn skip(ty: u16, sk: bool) -> bool {
        (ty > 0 && ty < 5) || ty == u16::MAX - 1 || sk
    }
    fn fill(b: &mut TokenBuffer<'static>, n: usize, ty: &[u16; 3], sk: &[bool; 3]) {
        let mut i = 0;
        while i < n {
            b.tokens.push(mk(ty[i], sk[i], i as u32));
            i += 1;
        }
    }
    /// position of the idx-th significant token
    fn nth(n: usize, ty: &[u16; 3], sk: &[bool; 3], idx: usize) -> (Option<usize>, usize) {
        let mut cnt = 0;
        let mut found: Option<usize> = None;
        let mut j = 0;
        while j < n {
            if !skip(ty[j], sk[j]) {
                if cnt == idx && found.is_none() {
                    found = Some(j);
                }
                cnt += 1;
            }
            j += 1;
        }
        (found, cnt)
    }
    /// lookahead position i sees the i-th significant token: never a skipped one, never skipping a significant one
    #[kani::proof]
    #[kani::unwind(5)]
    fn len_and_nth_non_skip() {
        let mut b = TokenBuffer::new();
        let n: usize = kani::any();
        kani::assume(n <= 3);
        let ty: [u16; 3] = kani::any();
        let sk: [bool; 3] = kani::any();
        fill(&mut b, n, &ty, &sk);
        let idx: usize = kani::any();
        kani::assume(idx < 4);
        let (found, cnt) = nth(n, &ty, &sk, idx);
        assert!(b.len() == cnt);
        assert!(b.is_empty() == (cnt == 0));
        assert!(b.is_buffer_empty() == (n == 0));
        match (b.non_skip_token_at(idx), found) {
            (None, None) => {}
            (Some(t), Some(f)) => assert!(t.token_number == f as u32),
            _ => assert!(false),
        }
        kani::cover!(found == Some(2) && idx == 0);
    }
    fn fmt_stub(_args: std::fmt::Arguments<'_>) -> String {
        String::new()
    }
    /// consume fails iff the buffer is empty or starts with a skipped token, else removes exactly the first token
    #[kani::proof]
    #[kani::unwind(5)]
    #[kani::stub(alloc::fmt::format, fmt_stub)]
    fn consume_first() {
        let mut b = TokenBuffer::new();
        let n: usize = kani::any();
        kani::assume(n <= 3);
        let ty: [u16; 3] = kani::any();
        let sk: [bool; 3] = kani::any();
        fill(&mut b, n, &ty, &sk);
        let r = b.consume();
        if n == 0 || skip(ty[0], sk[0]) {
            assert!(r.is_err());
            assert!(b.tokens.len() == n);
        } else {
            assert!(r.is_ok());
            assert!(r.unwrap().token_number == 0);
            assert!(b.tokens.len() == n - 1);
            if n > 1 {
                assert!(b.tokens[0].token_number == 1);
            }
            if n > 2 {
                assert!(b.tokens[1].token_number == 2);
            }
        }
    }
    /// remove(i) removes exactly the i-th significant token and leaves every other token in place
    #[kani::proof]
    #[kani::unwind(5)]
    fn remove_ith_non_skip() {
        let mut b = TokenBuffer::new();
        let n: usize = kani::any();
        kani::assume(n <= 3);
        let ty: [u16; 3] = kani::any();
        let sk: [bool; 3] = kani::any();
        fill(&mut b, n, &ty, &sk);
        let idx: usize = kani::any();
        kani::assume(idx < 3);
        let (found, _) = nth(n, &ty, &sk, idx);
        let r = b.remove(idx);
        match found {
            None => {
                assert!(r.is_none());
                assert!(b.tokens.len() == n);
            }
            Some(f) => {
                assert!(r.unwrap().token_number == f as u32);
                assert!(b.tokens.len() == n - 1);
                let mut j = 0;
                while j < n - 1 {
                    let want = if j < f { j } else { j + 1 };
                    assert!(b.tokens[j].token_number == want as u32);
                    j += 1;
                }
            }
        }
    }
    /// insert(i, t) puts t directly before the i-th significant token (or at the end) and moves nothing else
    #[kani::proof]
    #[kani::unwind(5)]
    fn insert_before_ith_non_skip() {
        let mut b = TokenBuffer::new();
        let n: usize = kani::any();
        kani::assume(n <= 2);
        let ty: [u16; 3] = kani::any();
        let sk: [bool; 3] = kani::any();
        fill(&mut b, n, &ty, &sk);
        let idx: usize = kani::any();
        kani::assume(idx < 3);
        let (found, _) = nth(n, &ty, &sk, idx);
        b.insert(idx, mk(5, false, 99));
        let at = match found { Some(f) => f, None => n };
        assert!(b.tokens.len() == n + 1);
        let mut j = 0;
        while j < n + 1 {
            let want = if j < at { j as u32 } else if j == at { 99 } else { (j - 1) as u32 };
            assert!(b.tokens[j].token_number == want);
            j += 1;
        }
    }
    /// take_skip_tokens returns exactly the maximal skipped prefix, in order, and removes exactly it:
    /// every comment is handed out once, in input order, none lost
    #[kani::proof]
    #[kani::unwind(4)]
    fn take_skip_prefix() {
        let mut b = TokenBuffer::new();
        let n: usize = kani::any();
        kani::assume(n <= 2);
        let ty: [u16; 3] = kani::any();
        let sk: [bool; 3] = kani::any();
        fill(&mut b, n, &ty, &sk);
        let mut p = 0;
        while p < n && skip(ty[p], sk[p]) {
            p += 1;
        }
        let taken = b.take_skip_tokens();
        assert!(taken.len() == p);
        assert!(b.tokens.len() == n - p);
        let mut j = 0;
        while j < p {
            assert!(taken[j].token_number == j as u32);
            j += 1;
        }
        let mut j = 0;
        while j < n - p {
            assert!(b.tokens[j].token_number == (p + j) as u32);
            j += 1;
        }
        kani::cover!(p == 1 && n == 2);
    }
}
