// entry point of the bounded native enumeration of the TokenBuffer border (see native_enum.rs)
fn main() { std::panic::set_hook(Box::new(|_| {})); parol_runtime::lexer::token_buffer::native_enum::main() }
