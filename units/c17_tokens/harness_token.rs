
// ======================================================================================================
// Hand-written harness module of unit c17_tokens, appended to the verbatim token.rs.
// Loop-free harnesses over the full u16 x bool domain: complete proofs, not bounded.
// The oracle is written from the property text: whitespace, newline, line/block comment and the
// invalid (unmatched) token are skip tokens; a token read in a scanner state whose skip list names it is
// effectively skipped; end-of-input and every user token are significant.
// ======================================================================================================
#[cfg(kani)]
mod verif {
    use super::*;
    fn oracle_skip(t: u16) -> bool {
        t == 1 || t == 2 || t == 3 || t == 4 || t == u16::MAX - 1
    }
    #[kani::proof]
    fn classification_matches_documented_sets() {
        let t: u16 = kani::any();
        let s: bool = kani::any();
        let tok = Token::default().with_type(t).with_state_skip(s);
        assert!(tok.is_skip_token() == oracle_skip(t));
        assert!(tok.is_comment_token() == (t == 3 || t == 4));
        assert!(tok.is_effectively_skip_token() == (oracle_skip(t) || s));
        // comments are skip tokens; EOI and user tokens are significant unless listed in the state's skip list
        if tok.is_comment_token() { assert!(tok.is_skip_token()); }
        if t == EOI || (t >= FIRST_USER_TOKEN && t != INVALID_TOKEN) { assert!(!tok.is_skip_token() && tok.is_effectively_skip_token() == s); }
        assert!(EOI == 0 && NEW_LINE == 1 && WHITESPACE == 2 && LINE_COMMENT == 3 && BLOCK_COMMENT == 4 && FIRST_USER_TOKEN == 5);
        kani::cover!(tok.is_skip_token() && t > 4);
        kani::cover!(!tok.is_skip_token() && tok.is_effectively_skip_token());
    }
    #[kani::proof]
    fn builders_change_only_their_field() {
        let t: u16 = kani::any();
        let t2: u16 = kani::any();
        let s: bool = kani::any();
        let n: u32 = kani::any();
        let mut a = Token::default();
        a.token_number = n;
        a.token_type = t;
        let b = a.clone().with_state_skip(s);
        assert!(b.token_type == t && b.token_number == n && b.state_skip == s && b.location == a.location);
        let c = b.clone().with_type(t2);
        assert!(c.token_type == t2 && c.token_number == n && c.state_skip == s && c.location == a.location);
        let mut d = c.clone();
        d.set_state_skip(!s);
        assert!(d.token_type == t2 && d.token_number == n && d.state_skip == !s);
        let e = Token::eoi(n);
        assert!(e.token_type == EOI && e.token_number == n && !e.is_effectively_skip_token());
        let w = Token::with("", t, Location::default(), n);
        assert!(w.token_type == t && w.token_number == n && !w.state_skip);
    }
}
