// ======================================================================================================
// Bounded NATIVE enumeration harness (appended to the verbatim token_buffer.rs, compiled only with feature
// `verif_native`; Kani never sees it).  It checks, on every buffer of a stated small space, exactly the contract
// clauses that the Verus unit ts_stream ASSUMES for the iterator-adapter methods of TokenBuffer (their bodies
// are outside the installed Verus).  Bounded stand-in: labelled bounded, never counted as proved.
// ======================================================================================================
#[cfg(feature = "verif_native")]
pub mod native_enum {
    use super::*;
    // (token type, state-skip flag) kinds: EOI, newline, line comment, block comment, two user tokens, the invalid/gap type
    const TYPES: [u16; 7] = [0, 1, 3, 4, 5, 6, u16::MAX - 1];
    fn oracle_skip(ty: u16, sk: bool) -> bool { (ty > 0 && ty < 5) || ty == u16::MAX - 1 || sk }
    fn mk(kind: usize, num: u32) -> Token<'static> {
        let mut x = Token::default().with_type(TYPES[kind / 2]).with_state_skip(kind % 2 == 1);
        x.token_number = num;
        x
    }
    fn build(kinds: &[usize]) -> TokenBuffer<'static> {
        let mut b = TokenBuffer::new();
        for (i, k) in kinds.iter().enumerate() { b.tokens.push(mk(*k, i as u32)); }
        b
    }
    pub const CLAUSES: [(&str, &str); 8] = [
        ("C08 C14 C16 C17 C31", "len() counts the significant tokens; is_empty() iff there is none"),
        ("C08 C14 C16 C17 C31", "non_skip_token_at(i) is the i-th significant token (None beyond)"),
        ("C17 C31", "non_skip_token_at_mut(i) refers to the i-th significant token in place; writing through it changes exactly that token"),
        ("C31", "non_skip_token_types() are the types of the significant tokens, in order"),
        ("C14 C16 C17", "take_skip_tokens() returns exactly the maximal skipped prefix, in order, and leaves exactly the rest"),
        ("C17", "non_skip_tokens() / non_skip_tokens_rev() iterate exactly the significant tokens (forwards / backwards)"),
        ("C14 C17", "is_buffer_empty() iff the buffer holds no token at all; clear() empties it"),
        ("C14", "position_after(line, column, text) is the position reached by advancing over text: a line feed starts a new line at column 1, every other char advances the column by one (saturating)"),
    ];
    /// index of the first violated clause for this buffer
    pub fn check(kinds: &[usize]) -> Option<usize> {
        let n = kinds.len();
        let sig: Vec<usize> = (0..n).filter(|i| !oracle_skip(TYPES[kinds[*i] / 2], kinds[*i] % 2 == 1)).collect();
        let b = build(kinds);
        if b.len() != sig.len() || b.is_empty() != sig.is_empty() { return Some(0); }
        for i in 0..=n + 1 {
            match (b.non_skip_token_at(i), sig.get(i)) {
                (None, None) => {}
                (Some(t), Some(p)) if t.token_number == *p as u32 && t.token_type == TYPES[kinds[*p] / 2] => {}
                _ => return Some(1),
            }
        }
        for i in 0..=n + 1 {
            let mut m = build(kinds);
            match (m.non_skip_token_at_mut(i), sig.get(i)) {
                (None, None) => {}
                (Some(t), Some(p)) if t.token_number == *p as u32 => { t.token_type = 77; }
                _ => return Some(2),
            }
            if m.tokens.len() != n { return Some(2); }
            for j in 0..n {
                let want_ty = if sig.get(i) == Some(&j) { 77 } else { TYPES[kinds[j] / 2] };
                if m.tokens[j].token_number != j as u32 || m.tokens[j].token_type != want_ty || m.tokens[j].state_skip != (kinds[j] % 2 == 1) { return Some(2); }
            }
        }
        let tys: Vec<u16> = sig.iter().map(|p| TYPES[kinds[*p] / 2]).collect();
        if b.non_skip_token_types() != tys { return Some(3); }
        {
            let mut m = build(kinds);
            let p = (0..n).take_while(|i| oracle_skip(TYPES[kinds[*i] / 2], kinds[*i] % 2 == 1)).count();
            let taken = m.take_skip_tokens();
            if taken.len() != p || m.tokens.len() != n - p { return Some(4); }
            if !(0..p).all(|j| taken[j].token_number == j as u32) { return Some(4); }
            if !(0..n - p).all(|j| m.tokens[j].token_number == (p + j) as u32) { return Some(4); }
        }
        let fw: Vec<u32> = b.non_skip_tokens().map(|t| t.token_number).collect();
        let bw: Vec<u32> = b.non_skip_tokens_rev().map(|t| t.token_number).collect();
        let want: Vec<u32> = sig.iter().map(|p| *p as u32).collect();
        let mut wr = want.clone(); wr.reverse();
        if fw != want || bw != wr { return Some(5); }
        {
            let mut m = build(kinds);
            if m.is_buffer_empty() != (n == 0) { return Some(6); }
            m.clear();
            if !m.is_buffer_empty() || m.len() != 0 { return Some(6); }
        }
        {
            // every kind index names one char of a small alphabet (line feed, carriage return, ASCII, 2-, 3- and 4-byte chars)
            const CH: [char; 7] = ['\n', '\r', 'a', ' ', '\u{e9}', '\u{20ac}', '\u{1f600}'];
            let text: String = kinds.iter().map(|k| CH[*k % CH.len()]).collect();
            for (l0, c0) in [(1u32, 1u32), (3, 7), (u32::MAX - 1, u32::MAX - 1), (u32::MAX, u32::MAX)] {
                let (mut l, mut c) = (l0 as u64, c0 as u64);
                for ch in text.chars() { if ch == '\n' { l += 1; c = 1; } else { c += 1; } l = l.min(u32::MAX as u64); c = c.min(u32::MAX as u64); }
                if TokenBuffer::position_after(l0, c0, &text) != (l as u32, c as u32) { return Some(7); }
            }
        }
        None
    }
    pub fn main() {
        let a: Vec<String> = std::env::args().collect();
        let nk = TYPES.len() * 2;
        if a.len() >= 4 && a[1] == "search" {
            let prop = a[2].as_str();
            let maxlen: usize = a[3].parse().unwrap();
            let mut first: Vec<Option<String>> = vec![None; CLAUSES.len()];
            let mut cases = 0u64;
            let mut stack: Vec<Vec<usize>> = vec![vec![]];
            while let Some(p) = stack.pop() {
                cases += 1;
                let r = std::panic::catch_unwind(|| check(&p));
                let ci = match r { Ok(x) => x, Err(_) => Some(0) };
                if let Some(ci) = ci { if first[ci].is_none() { first[ci] = Some(format!("{:?}", p)); } }
                if p.len() < maxlen { for k in 0..nk { let mut q = p.clone(); q.push(k); stack.push(q); } }
            }
            let mut bad = false;
            for (ci, (props, c)) in CLAUSES.iter().enumerate() {
                if !(prop == "all" || props.split(' ').any(|x| x == prop)) { continue; }
                match &first[ci] {
                    Some(w) => { println!("BORDER-VIOLATION\t{}\t{{\"kinds\":{}}}", c, w); bad = true; }
                    None => println!("CHECKED\t{}\t{}", c, cases),
                }
            }
            if bad { std::process::exit(1); }
        } else if a.len() >= 3 {
            // replay: {"kinds":[..]}
            let kinds: Vec<usize> = a[2].split(|c: char| !c.is_ascii_digit()).filter(|x| !x.is_empty()).map(|x| x.parse().unwrap()).collect();
            println!("buffer of (type, state-skip): {:?}", kinds.iter().map(|k| (TYPES[k / 2], k % 2 == 1)).collect::<Vec<_>>());
            match check(&kinds) {
                Some(ci) => { println!("REPRODUCED on the real TokenBuffer: violated `{}`", CLAUSES[ci].1); std::process::exit(1) }
                None => println!("the recorded buffer satisfies all clauses on the current tree"),
            }
        }
    }
}
