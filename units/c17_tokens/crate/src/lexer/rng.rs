//@wholefile crates/parol_runtime/src/lexer/rng.rs
