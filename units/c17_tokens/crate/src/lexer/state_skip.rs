// hand-written shim struct around the verbatim `TokenStream::is_state_skip_token` + bounded harness
use crate::TerminalIndex;
pub type ScannerIndex = usize;
pub struct TokenStream {
    pub skip_tokens_by_state: &'static [&'static [TerminalIndex]],
}
impl TokenStream {
//@extract crates/parol_runtime/src/lexer/token_stream.rs :: impl TokenStream<'t, F> :: fn is_state_skip_token
}
#[cfg(kani)]
mod verif {
    use super::*;
    /// a token type is state-skipped iff the state exists and its skip list names the type (<= 2 states x 2 entries)
    #[kani::proof]
    #[kani::unwind(4)]
    fn state_skip_lookup_bounded() {
        static A: [u16; 2] = [7, 9];
        static B: [u16; 1] = [8];
        static L: [&[u16]; 2] = [&A, &B];
        let ts = TokenStream { skip_tokens_by_state: &L };
        let t: u16 = kani::any();
        let s: usize = kani::any();
        let want = (s == 0 && (t == 7 || t == 9)) || (s == 1 && t == 8);
        assert!(ts.is_state_skip_token(t, s) == want);
        let none = TokenStream { skip_tokens_by_state: &[] };
        assert!(!none.is_state_skip_token(t, s));
    }
}
