//@wholefile crates/parol_runtime/src/lexer/format_token.rs
