//@wholefile crates/parol_runtime/src/lexer/location.rs
