// shim of crates/parol_runtime/src/lexer/mod.rs: type aliases extracted verbatim, module tree restricted to
// the files under verification
//@extract crates/parol_runtime/src/lexer/mod.rs :: type TerminalIndex
//@extract crates/parol_runtime/src/lexer/mod.rs :: type TokenNumber
pub mod format_token;
pub use format_token::FormatToken;
pub mod location;
pub use location::Location;
pub mod rng;
pub use rng::{Span, ToSpan};
pub mod token;
pub use token::{BLOCK_COMMENT, EOI, FIRST_USER_TOKEN, LINE_COMMENT, NEW_LINE, Token, WHITESPACE};
pub mod token_buffer;
pub use token_buffer::TokenBuffer;
pub mod state_skip;
