//@wholefile crates/parol_runtime/src/lexer/token_buffer.rs
//@append harness_buffer.rs
//@append native_enum.rs
