//@wholefile crates/parol_runtime/src/lexer/token.rs
//@append harness_token.rs
