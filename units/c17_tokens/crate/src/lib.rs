// shim of the parol_runtime crate root: the lexer modules under verification (verbatim files) + the two
// items they import from the crate root that live elsewhere (LexerError: hand-written shim holding only the
// variant TokenBuffer::consume constructs; the real type derives thiserror::Error).
#![allow(warnings)]
pub mod lexer;
pub use lexer::{FormatToken, Location, Span, TerminalIndex, ToSpan, Token, TokenNumber};
#[derive(Debug)]
pub enum LexerError {
    InternalError(String),
}
