// shim of the parol_runtime crate: only the items k_tuple.rs / compiled_terminal.rs use, extracted verbatim
//@extract crates/parol_runtime/src/lexer/mod.rs :: type TerminalIndex
pub mod lexer {
    use super::TerminalIndex;
//@extract crates/parol_runtime/src/lexer/token.rs :: const EOI
}
