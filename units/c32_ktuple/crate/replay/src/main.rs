// native replay of a recorded Kani counterexample: replay <harness> <b,b,b;b,b;...>
fn main() {
    let a: Vec<String> = std::env::args().collect();
    let vals: Vec<Vec<u8>> = a[2].split(';').filter(|x| !x.trim().is_empty())
        .map(|v| v.split(',').map(|b| b.trim().parse().unwrap()).collect()).collect();
    std::panic::set_hook(Box::new(|_| {}));
    match parol::analysis::k_tuple::verif::replay::replay(&a[1], &vals) {
        Ok(Some(why)) => { println!("REPRODUCED on the real function: {why}"); std::process::exit(1) }
        Ok(None) => { println!("the recorded values satisfy the contract natively"); }
        Err(e) => { println!("replay impossible: {e}"); std::process::exit(2) }
    }
}
