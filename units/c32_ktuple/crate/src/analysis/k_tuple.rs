//@wholefile crates/parol/src/analysis/k_tuple.rs
//@append harness.rs
