// items of crates/parol/src/analysis/compiled_terminal.rs used by k_tuple.rs, extracted verbatim.
// Dropped: CompiledTerminal::create (needs Symbol/Terminal/TerminalIndexFn), AsRef and From impls.
use crate::analysis::k_tuple::TerminalMappings;
use parol_runtime::TerminalIndex;
use parol_runtime::lexer::EOI;
use std::fmt::{Debug, Display, Error, Formatter};
//@extract crates/parol/src/analysis/compiled_terminal.rs :: const EPS
//@extract crates/parol/src/analysis/compiled_terminal.rs :: const INVALID
//@extract crates/parol/src/analysis/compiled_terminal.rs :: struct CompiledTerminal
//@extract crates/parol/src/analysis/compiled_terminal.rs :: impl Display for CompiledTerminal
//@extract crates/parol/src/analysis/compiled_terminal.rs :: impl TerminalMappings<CompiledTerminal> for CompiledTerminal
