// shim of the parol crate root: module tree + the re-exports k_tuple.rs uses
#![allow(warnings)]
pub mod analysis {
    pub mod compiled_terminal;
    pub mod k_tuple;
}
pub use analysis::compiled_terminal::CompiledTerminal;
//@extract crates/parol/src/lib.rs :: const MAX_K
