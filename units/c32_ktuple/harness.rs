
// ======================================================================================================
// Hand-written harness module of unit c32_ktuple (appended to the verbatim k_tuple.rs; a child module, so
// it sees the private field `Terminals.t`).  It holds (1) the abstract view of the packed representation
// and the sequence-level reference functions written from the property text, (2) the predicates used by
// the function contracts inserted above the real functions (contracts.txt), (3) the proof harnesses.
// Every contract predicate tests wf(..) BEFORE computing view(..): under stub_verified Kani evaluates a
// postcondition on an arbitrary value.
// ======================================================================================================
#[cfg(any(kani, feature = "verif_replay"))]
pub mod verif {
    use super::*;
    use std::cmp::Ordering;
    const PAY: u128 = 0x00FF_FFFF_FFFF_FFFF_FFFF_FFFF_FFFF_FFFF;

    /// representation invariant: 1..=12 bits per terminal, at most MAX_K terminals, payload above `len` is zero
    pub(super) fn wf(t: &Terminals) -> bool {
        let bits = t.bits();
        let n = t.next_index();
        bits >= 1 && bits <= 12 && n <= 10 && (t.t & PAY) >> ((n as u32) * (bits as u32)) == 0
    }
    /// header only (bits in range, index in range) - enough for set/inc_index which work below the invariant
    pub(super) fn hdr_ok(t: &Terminals) -> bool {
        t.bits() >= 1 && t.bits() <= 12 && t.next_index() <= 10
    }
    /// abstract view: (len, digits) where the eps code (all ones) is mapped to EPS
    #[derive(Clone, Copy, PartialEq, Eq)]
    pub(super) struct View {
        pub len: usize,
        pub d: [u16; 10],
    }
    /// digit i of the payload, for every i < 10 (also above len)
    pub(super) fn raw(t: &Terminals, i: usize) -> u16 {
        let v = (t.t >> (i as u32 * t.bits() as u32)) & t.mask();
        if v == t.mask() { EPS } else { v as u16 }
    }
    pub(super) fn view(t: &Terminals) -> View {
        let mut d = [0u16; 10];
        let mut i = 0;
        while i < 10 {
            if i < t.next_index() as usize {
                d[i] = raw(t, i);
            }
            i += 1;
        }
        View { len: t.next_index() as usize, d }
    }
    pub(super) fn same(a: &View, b: &View) -> bool {
        if a.len != b.len {
            return false;
        }
        let mut ok = true;
        let mut i = 0;
        while i < 10 {
            if i < a.len && a.d[i] != b.d[i] {
                ok = false;
            }
            i += 1;
        }
        ok
    }
    /// a terminal that the representation can hold: a code below the all-ones code, or epsilon
    pub(super) fn term_ok(t: &Terminals, x: CompiledTerminal) -> bool {
        (x.0 as u128) < t.mask() || x.0 == EPS
    }
    pub(super) fn v_is_eps(v: &View) -> bool {
        v.len == 1 && v.d[0] == EPS
    }
    pub(super) fn v_last(v: &View) -> Option<u16> {
        if v.len == 0 { None } else { Some(v.d[v.len - 1]) }
    }
    /// k-complete: not epsilon and (at least k long or terminated by end-of-input)
    pub(super) fn v_complete(v: &View, k: usize) -> bool {
        !v_is_eps(v) && (v.len >= k || v_last(v) == Some(EOI))
    }
    /// the property's truncated concatenation on sequences
    pub(super) fn spec_kconcat(a: &View, b: &View, k: usize) -> View {
        if v_is_eps(b) || b.len == 0 {
            return *a;
        }
        let a1 = if v_is_eps(a) { View { len: 0, d: [0; 10] } } else { *a };
        if v_complete(&a1, k) {
            return a1;
        }
        let mut r = a1;
        let mut j = 0;
        while j < 10 {
            if j < b.len && r.len < k {
                r.d[r.len] = b.d[j];
                r.len += 1;
            }
            j += 1;
        }
        r
    }
    /// the order on sequences the representation implements: shorter first, then lexicographic from the LAST
    /// element to the first, the epsilon code being the largest code of the alphabet
    pub(super) fn spec_cmp(a: &View, b: &View, mask: u128) -> Ordering {
        if a.len != b.len {
            return a.len.cmp(&b.len);
        }
        let code = |x: u16| if x == EPS { mask } else { x as u128 };
        let mut i = 10;
        while i > 0 {
            i -= 1;
            if i < a.len && a.d[i] != b.d[i] {
                return code(a.d[i]).cmp(&code(b.d[i]));
            }
        }
        Ordering::Equal
    }

    // ---------------- contract predicates (used from contracts.txt) ----------------
    pub(super) fn new_post(m: usize, r: &Terminals) -> bool {
        // every terminal 0..=m is representable and distinct from the eps code; the width is minimal
        wf(r) && r.next_index() == 0 && r.mask() > m as u128 && (r.bits() == 1 || (m as u128) >= (r.mask() >> 1))
    }
    pub(super) fn eps_post(m: usize, r: &Terminals) -> bool {
        wf(r) && r.mask() > m as u128 && v_is_eps(&view(r))
    }
    pub(super) fn end_post(m: usize, r: &Terminals) -> bool {
        wf(r) && r.mask() > m as u128 && { let v = view(r); v.len == 1 && v.d[0] == EOI }
    }
    pub(super) fn push_post(old: &Terminals, new: &Terminals, x: CompiledTerminal, ok: bool) -> bool {
        let vo = view(old);
        if vo.len == 10 {
            return !ok && new.t == old.t;
        }
        if v_last(&vo) == Some(EOI) {
            return ok && new.t == old.t;
        }
        if !(ok && wf(new) && new.bits() == old.bits()) {
            return false;
        }
        let vn = view(new);
        let mut e = vo;
        e.d[vo.len] = x.0;
        e.len = vo.len + 1;
        same(&vn, &e)
    }
    pub(super) fn get_post(t: &Terminals, i: usize, r: &Option<CompiledTerminal>) -> bool {
        let v = view(t);
        if i < v.len { *r == Some(CompiledTerminal(v.d[i])) } else { r.is_none() }
    }
    pub(super) fn set_pre(t: &Terminals, i: usize, x: CompiledTerminal) -> bool {
        hdr_ok(t) && i < 10 && term_ok(t, x)
    }
    pub(super) fn set_post(old: &Terminals, new: &Terminals, i: usize, x: CompiledTerminal) -> bool {
        if !(new.bits() == old.bits() && new.next_index() == old.next_index()) {
            return false;
        }
        let mut ok = true;
        let mut j = 0;
        while j < 10 {
            let want = if j == i { x.0 } else { raw(old, j) };
            if raw(new, j) != want {
                ok = false;
            }
            j += 1;
        }
        ok
    }
    pub(super) fn of_post(k: usize, t: &Terminals, r: &Terminals) -> bool {
        if !(wf(r) && r.bits() == t.bits()) {
            return false;
        }
        let (vt, vr) = (view(t), view(r));
        let mut e = vt;
        e.len = std::cmp::min(k, vt.len);
        same(&vr, &e)
    }
    pub(super) fn last_post(t: &Terminals, r: &Option<CompiledTerminal>) -> bool {
        match v_last(&view(t)) {
            None => r.is_none(),
            Some(x) => *r == Some(CompiledTerminal(x)),
        }
    }
    pub(super) fn clear_post(old: &Terminals, new: &Terminals) -> bool {
        wf(new) && new.bits() == old.bits() && new.next_index() == 0
    }
    pub(super) fn inc_post(old: &Terminals, new: &Terminals) -> bool {
        new.next_index() == old.next_index() + 1 && new.bits() == old.bits() && (new.t & PAY) == (old.t & PAY)
    }
    pub(super) fn kconcat_pre(a: &Terminals, b: &Terminals, k: usize) -> bool {
        wf(a) && wf(b) && a.bits() == b.bits() && k <= 10 && (a.len() <= k || a.is_eps())
    }
    pub(super) fn kconcat_post(a: &Terminals, b: &Terminals, k: usize, c: &Terminals) -> bool {
        if !wf(c) {
            return false;
        }
        let e = spec_kconcat(&view(a), &view(b), k);
        c.bits() == a.bits() && same(&view(c), &e)
    }
    pub(super) fn ts_kconcat_pre(a: &TerminalString, b: &TerminalString, k: usize) -> bool {
        kconcat_pre(a.inner(), b.inner(), k) && (a.is_k_complete() == a.inner().is_k_complete(k))
    }
    /// a TerminalString concatenation returns the sequence concatenation, tagged Complete iff it is k-complete
    pub(super) fn ts_kconcat_post(a: &TerminalString, b: &TerminalString, k: usize, c: &TerminalString) -> bool {
        let inner_ok = if a.is_k_complete() { c.inner().t == a.inner().t } else { kconcat_post(a.inner(), b.inner(), k, c.inner()) };
        inner_ok && wf(c.inner()) && c.is_k_complete() == v_complete(&view(c.inner()), k)
    }

    #[cfg(kani)]
    mod harnesses {
        use super::*;
        use super::super::*;
        impl kani::Arbitrary for Terminals {
            fn any() -> Self {
                Terminals { t: kani::any() }
            }
        }
        impl kani::Arbitrary for TerminalString {
            fn any() -> Self {
                if kani::any() { TerminalString::Incomplete(kani::any()) } else { TerminalString::Complete(kani::any()) }
            }
        }
        fn any_wf() -> Terminals {
            let t = Terminals { t: kani::any() };
            kani::assume(wf(&t));
            t
        }
        fn any_term(t: &Terminals) -> CompiledTerminal {
            let x = CompiledTerminal(kani::any());
            kani::assume(term_ok(t, x));
            x
        }

        // ---------------- function contracts, each proved against the real body ----------------
        #[kani::proof_for_contract(Terminals::new)]
        fn c_new() {
            let _ = Terminals::new(kani::any());
            kani::cover!(true);
        }
        /// outside the documented 12-bit limit `new` panics (never silently wraps)
        #[kani::proof]
        #[kani::should_panic]
        fn new_rejects_too_many_terminals() {
            let m: usize = kani::any();
            kani::assume(m >= 4095 && m < usize::MAX);
            let _ = Terminals::new(m);
        }
        #[kani::proof_for_contract(Terminals::eps)]
        fn c_eps() {
            let _ = Terminals::eps(kani::any());
            kani::cover!(true);
        }
        #[kani::proof_for_contract(Terminals::end)]
        fn c_end() {
            let _ = Terminals::end(kani::any());
            kani::cover!(true);
        }
        #[kani::proof_for_contract(Terminals::push)]
        fn c_push() {
            let mut t: Terminals = kani::any();
            let _ = t.push(CompiledTerminal(kani::any()));
            kani::cover!(true);
        }
        #[kani::proof_for_contract(Terminals::get)]
        fn c_get() {
            let t: Terminals = kani::any();
            let _ = t.get(kani::any());
            kani::cover!(true);
        }
        #[kani::proof_for_contract(Terminals::set)]
        fn c_set() {
            let mut t: Terminals = kani::any();
            t.set(kani::any(), CompiledTerminal(kani::any()));
            kani::cover!(true);
        }
        #[kani::proof_for_contract(Terminals::of)]
        #[kani::unwind(12)]
        fn c_of() {
            let _ = Terminals::of(kani::any(), kani::any());
            kani::cover!(true);
        }
        #[kani::proof_for_contract(Terminals::len)]
        fn c_len() {
            let t: Terminals = kani::any();
            let _ = t.len();
            kani::cover!(true);
        }
        #[kani::proof_for_contract(Terminals::is_empty)]
        fn c_is_empty() {
            let t: Terminals = kani::any();
            let _ = t.is_empty();
            kani::cover!(true);
        }
        #[kani::proof_for_contract(Terminals::k_len)]
        fn c_k_len() {
            let t: Terminals = kani::any();
            let _ = t.k_len(kani::any());
            kani::cover!(true);
        }
        #[kani::proof_for_contract(Terminals::last)]
        fn c_last() {
            let t: Terminals = kani::any();
            let _ = t.last();
            kani::cover!(true);
        }
        #[kani::proof_for_contract(Terminals::is_eps)]
        fn c_is_eps() {
            let t: Terminals = kani::any();
            let _ = t.is_eps();
            kani::cover!(true);
        }
        #[kani::proof_for_contract(Terminals::is_k_complete)]
        fn c_is_k_complete() {
            let t: Terminals = kani::any();
            let _ = t.is_k_complete(kani::any());
            kani::cover!(true);
        }
        #[kani::proof_for_contract(Terminals::clear)]
        fn c_clear() {
            let mut t: Terminals = kani::any();
            t.clear();
            kani::cover!(true);
        }
        #[kani::proof_for_contract(Terminals::inc_index)]
        fn c_inc_index() {
            let mut t: Terminals = kani::any();
            t.inc_index();
            kani::cover!(true);
        }
        #[kani::proof_for_contract(Terminals::k_concat)]
        #[kani::unwind(11)]
        fn c_k_concat() {
            let a: Terminals = kani::any();
            let b: Terminals = kani::any();
            let _ = a.k_concat(&b, kani::any());
            kani::cover!(true);
        }
        /// caller checked against the CONTRACT of Terminals::k_concat only
        #[kani::proof_for_contract(TerminalString::k_concat)]
        #[kani::stub_verified(Terminals::k_concat)]
        #[kani::unwind(11)]
        fn c_ts_k_concat() {
            let a: TerminalString = kani::any();
            let b: TerminalString = kani::any();
            let _ = a.k_concat(&b, kani::any());
            kani::cover!(true);
        }
        /// KTuple::k_concat checked against the CONTRACT of TerminalString::k_concat only
        #[kani::proof]
        #[kani::stub_verified(TerminalString::k_concat)]
        #[kani::unwind(11)]
        fn ktuple_k_concat() {
            let a: TerminalString = kani::any();
            let b: TerminalString = kani::any();
            let k: usize = kani::any();
            kani::assume(ts_kconcat_pre(&a, &b, k));
            let ka = KTuple { terminals: a, k };
            let kb = KTuple { terminals: b, k };
            let r = ka.k_concat(&kb, k);
            assert!(ts_kconcat_post(&a, &b, k, &r.terminals));
            assert!(r.k() == std::cmp::min(view(r.terminals()).len, k));
            assert!(r.is_k_complete() == v_complete(&view(r.terminals()), k));
            kani::cover!(r.len() == 10);
        }
        /// KTuple::of checked against the CONTRACT of Terminals::of only
        #[kani::proof]
        #[kani::stub_verified(Terminals::of)]
        #[kani::unwind(11)]
        fn ktuple_of() {
            let t = any_wf();
            let k: usize = kani::any();
            let r = KTuple::of(t, k);
            assert!(of_post(k, &t, r.terminals()));
            assert!(r.k() == k);
            assert!(r.is_k_complete() == v_complete(&view(r.terminals()), k));
            kani::cover!(r.len() == 3);
        }

        // ---------------- full-domain harnesses (loops bounded by MAX_K, fully unwound) ----------------
        /// the central obligation once more as a plain harness, with reachability covers
        #[kani::proof]
        #[kani::unwind(11)]
        fn k_concat_is_sequence_concat() {
            let a = any_wf();
            let b = any_wf();
            let k: usize = kani::any();
            kani::assume(kconcat_pre(&a, &b, k));
            let c = a.k_concat(&b, k);
            assert!(kconcat_post(&a, &b, k, &c));
            let (va, vc) = (view(&a), view(&c));
            kani::cover!(vc.len == 10);
            kani::cover!(vc.len > va.len && va.len > 0);
            kani::cover!(v_is_eps(&va) && vc.len == 2);
        }
        #[kani::proof]
        #[kani::unwind(11)]
        fn cmp_is_shortlex_and_consistent_with_eq() {
            let a = any_wf();
            let b = any_wf();
            kani::assume(a.bits() == b.bits());
            let o = a.cmp(&b);
            assert!(o == spec_cmp(&view(&a), &view(&b), a.mask()));
            assert!((o == Ordering::Equal) == (a == b));
            assert!((a == b) == same(&view(&a), &view(&b)));
            assert!(a.partial_cmp(&b) == Some(o));
            assert!(b.cmp(&a) == o.reverse());
            kani::cover!(o == Ordering::Less && a.len() == b.len());
        }
        #[kani::proof]
        #[kani::unwind(11)]
        fn cmp_is_transitive() {
            let a = any_wf();
            let b = any_wf();
            let c = any_wf();
            kani::assume(a.bits() == b.bits() && b.bits() == c.bits());
            if a.cmp(&b) != Ordering::Greater && b.cmp(&c) != Ordering::Greater {
                assert!(a.cmp(&c) != Ordering::Greater);
            }
        }
        #[kani::proof]
        #[kani::unwind(12)]
        fn iter_yields_exactly_the_sequence() {
            let a = any_wf();
            let v = view(&a);
            let mut it = a.iter();
            let mut i = 0;
            while i < 11 {
                let x = it.next();
                if i < v.len {
                    assert!(x == Some(v.d[i]));
                } else {
                    assert!(x.is_none());
                }
                i += 1;
            }
            kani::cover!(v.len == 10);
        }
        #[kani::proof]
        #[kani::unwind(11)]
        fn terminal_string_push_and_tags() {
            let t = any_wf();
            let k: usize = kani::any();
            kani::assume(k <= 10);
            let x = any_term(&t);
            kani::assume(!t.is_k_complete(k));
            let mut s = TerminalString::Incomplete(t);
            let r = s.push(x, k);
            assert!(push_post(&t, s.inner(), x, r.is_ok()));
            if r.is_ok() {
                assert!(s.is_k_complete() == v_complete(&view(s.inner()), k));
            }
            // a complete string ignores pushes
            let mut c = TerminalString::Complete(t);
            let r2 = c.push(x, k);
            assert!(r2.is_ok() && c.inner().t == t.t && c.is_k_complete());
            // tag-only operations keep the sequence
            assert!(s.make_complete().inner().t == s.inner().t && s.make_complete().is_k_complete());
            assert!(s.make_incomplete().inner().t == s.inner().t && !s.make_incomplete().is_k_complete());
            assert!(s.is_complete(k) == v_complete(&view(s.inner()), k));
            assert!(s.len() == view(s.inner()).len && s.is_empty() == (s.len() == 0));
            assert!(TerminalString::Incomplete(t).is_eps() == v_is_eps(&view(&t)));
            assert!(!TerminalString::Complete(t).is_eps());
            let cl = s.clear();
            assert!(cl.inner().next_index() == 0 && !cl.is_k_complete() && cl.inner().bits() == t.bits());
        }
        #[kani::proof]
        #[kani::unwind(11)]
        fn ktuple_push_set_k_accessors() {
            let t = any_wf();
            let k: usize = kani::any();
            kani::assume(k <= 10);
            let x = any_term(&t);
            let base = KTuple::of(t, k);
            let mut kt = base;
            let r = kt.push(x);
            if !base.is_k_complete() {
                assert!(push_post(base.terminals(), kt.terminals(), x, r.is_ok()));
            } else {
                assert!(r.is_ok() && kt.terminals().t == base.terminals().t);
            }
            assert!(kt.len() == view(kt.terminals()).len);
            assert!(kt.is_empty() == (kt.len() == 0));
            assert!(kt.is_eps() == (!kt.is_k_complete() && v_is_eps(&view(kt.terminals()))));
            let k2: usize = kani::any();
            assert!(kt.k_len(k2) == std::cmp::min(kt.len(), k2));
            let s = kt.set_k(k2);
            assert!(s.k() == k2 && s.terminals().t == kt.terminals().t);
            assert!(s.is_k_complete() == v_complete(&view(s.terminals()), k2));
        }
        /// equality of tagged strings / tuples built for the same k agrees with equality of the sequences
        #[kani::proof]
        #[kani::unwind(11)]
        fn tagged_equality_agrees_with_sequence_equality() {
            let a = any_wf();
            let b = any_wf();
            kani::assume(a.bits() == b.bits());
            let k: usize = kani::any();
            kani::assume(k <= 10 && a.len() <= k && b.len() <= k);
            let (ka, kb) = (KTuple::of(a, k), KTuple::of(b, k));
            assert!((ka == kb) == same(&view(&a), &view(&b)));
            assert!((ka.cmp(&kb) == Ordering::Equal) == (ka == kb));
        }
        /// KTupleBuilder (k_tuple source): the result holds the first k terminals of the source tuple
        #[kani::proof]
        #[kani::unwind(12)]
        fn builder_from_ktuple_takes_k() {
            let t = any_wf();
            let k: usize = kani::any();
            kani::assume(k <= 10);
            let m: usize = kani::any();
            kani::assume(m < 4095);
            let probe = Terminals::new(m);
            kani::assume(probe.bits() == t.bits());
            kani::assume(!v_is_eps(&view(&t)) || k >= 1);
            let src = KTuple::of(t, 10);
            let r = KTupleBuilder::new().k(k).max_terminal_index(m).k_tuple(&src).build();
            match r {
                Ok(kt) => {
                    let (vs, vr) = (view(src.terminals()), view(kt.terminals()));
                    assert!(wf(kt.terminals()));
                    assert!(kt.k() == k);
                    // pushing stops after an end-of-input terminal
                    let mut n = 0;
                    let mut stop = false;
                    let mut i = 0;
                    while i < 10 {
                        if i < vs.len && i < k && !stop {
                            assert!(vr.d[i] == vs.d[i]);
                            n += 1;
                            if vs.d[i] == EOI {
                                stop = true;
                            }
                        }
                        i += 1;
                    }
                    assert!(vr.len == n);
                    assert!(kt.is_k_complete() == v_complete(&vr, k));
                }
                Err(_) => assert!(false),
            }
        }
        #[kani::proof]
        fn builder_eps_end() {
            let k: usize = kani::any();
            let m: usize = kani::any();
            kani::assume(m < 4095);
            let e = KTupleBuilder::new().k(k).max_terminal_index(m).eps().unwrap();
            assert!(v_is_eps(&view(e.terminals())) && !e.is_k_complete() && e.k() == std::cmp::min(k, 10));
            let z = KTupleBuilder::new().k(k).max_terminal_index(m).end().unwrap();
            assert!(view(z.terminals()).len == 1 && view(z.terminals()).d[0] == EOI && z.is_k_complete());
            assert!(KTupleBuilder::new().max_terminal_index(m).eps().is_err());
            assert!(KTupleBuilder::new().k(k).end().is_err());
        }

        // ---------------- bounded by an input LENGTH (labelled bounded, never counted as proved) ----------------
        /// Extend / from_slice over a slice of at most 3 terminals
        #[kani::proof]
        #[kani::unwind(12)]
        fn from_slice_bounded3() {
            let m: usize = kani::any();
            kani::assume(m < 4095);
            let probe = Terminals::new(m);
            let xs: [CompiledTerminal; 3] = [any_term(&probe), any_term(&probe), any_term(&probe)];
            let n: usize = kani::any();
            kani::assume(n <= 3);
            let k: usize = kani::any();
            kani::assume(k <= 10);
            let r = KTuple::from_slice(&xs[..n], k, m);
            let v = view(r.terminals());
            assert!(wf(r.terminals()) && r.k() == k);
            let mut cnt = 0;
            let mut stop = false;
            let mut i = 0;
            while i < 3 {
                if i < n && i < k && !stop {
                    assert!(v.d[i] == xs[i].0);
                    cnt += 1;
                    if xs[i].0 == EOI {
                        stop = true;
                    }
                }
                i += 1;
            }
            assert!(v.len == cnt);
            assert!(r.is_k_complete() == v_complete(&v, k));
        }

    }

    // ---------------- native replay of Kani counterexamples for the contract harnesses ----------------
    // Kani's own playback erases function contracts, so each contract harness has a native twin that draws
    // the recorded values in the same order and evaluates `pre ==> post` explicitly with the same predicates.
    #[cfg(not(kani))]
    pub mod replay {
        use super::*;
        use super::super::*;
        pub struct Vals<'a> { pub v: &'a [Vec<u8>], pub i: usize }
        impl<'a> Vals<'a> {
            fn bytes(&mut self, n: usize) -> u128 {
                let b = &self.v[self.i];
                assert!(b.len() == n, "recorded value {} has {} bytes, expected {}", self.i, b.len(), n);
                self.i += 1;
                let mut x = 0u128;
                for (k, y) in b.iter().enumerate() { x |= (*y as u128) << (8 * k); }
                x
            }
            pub fn terminals(&mut self) -> Terminals { Terminals { t: self.bytes(16) } }
            pub fn usize(&mut self) -> usize { self.bytes(8) as usize }
            pub fn u16(&mut self) -> u16 { self.bytes(2) as u16 }
            pub fn bool(&mut self) -> bool { self.bytes(1) != 0 }
            pub fn tstring(&mut self) -> TerminalString {
                if self.bool() { TerminalString::Incomplete(self.terminals()) } else { TerminalString::Complete(self.terminals()) }
            }
        }
        fn run<T>(f: impl FnOnce() -> T + std::panic::UnwindSafe) -> Result<T, String> {
            std::panic::catch_unwind(f).map_err(|_| "the function panicked".to_string())
        }
        fn chk(what: &str, ok: bool) -> Option<String> { if ok { None } else { Some(format!("postcondition violated: {what}")) } }
        /// Some(reason) when the recorded values violate the contract of the function behind harness `name`;
        /// None when the precondition does not hold for them or the postcondition holds.
        pub fn replay(name: &str, v: &[Vec<u8>]) -> Result<Option<String>, String> {
            let mut s = Vals { v, i: 0 };
            let out = match name {
                "c_new" => { let m = s.usize(); if !(m < 4095) { return Ok(None); }
                    match run(move || Terminals::new(m)) { Err(e) => Some(e), Ok(r) => chk("new_post", new_post(m, &r)) } }
                "c_eps" => { let m = s.usize(); if !(m < 4095) { return Ok(None); }
                    match run(move || Terminals::eps(m)) { Err(e) => Some(e), Ok(r) => chk("eps_post", eps_post(m, &r)) } }
                "c_end" => { let m = s.usize(); if !(m < 4095) { return Ok(None); }
                    match run(move || Terminals::end(m)) { Err(e) => Some(e), Ok(r) => chk("end_post", end_post(m, &r)) } }
                "c_push" => { let t = s.terminals(); let x = CompiledTerminal(s.u16()); if !(wf(&t) && term_ok(&t, x)) { return Ok(None); }
                    match run(move || { let mut n = t; let r = n.push(x); (n, r.is_ok()) }) { Err(e) => Some(e), Ok((n, ok)) => chk("push_post", push_post(&t, &n, x, ok)) } }
                "c_get" => { let t = s.terminals(); let i = s.usize(); if !wf(&t) { return Ok(None); }
                    match run(move || t.get(i)) { Err(e) => Some(e), Ok(r) => chk("get_post", get_post(&t, i, &r)) } }
                "c_set" => { let t = s.terminals(); let i = s.usize(); let x = CompiledTerminal(s.u16()); if !set_pre(&t, i, x) { return Ok(None); }
                    match run(move || { let mut n = t; n.set(i, x); n }) { Err(e) => Some(e), Ok(n) => chk("set_post", set_post(&t, &n, i, x)) } }
                "c_of" => { let k = s.usize(); let t = s.terminals(); if !wf(&t) { return Ok(None); }
                    match run(move || Terminals::of(k, t)) { Err(e) => Some(e), Ok(r) => chk("of_post", of_post(k, &t, &r)) } }
                "c_len" => { let t = s.terminals(); if !wf(&t) { return Ok(None); }
                    match run(move || t.len()) { Err(e) => Some(e), Ok(r) => chk("len == |seq|", r == view(&t).len) } }
                "c_is_empty" => { let t = s.terminals(); if !wf(&t) { return Ok(None); }
                    match run(move || t.is_empty()) { Err(e) => Some(e), Ok(r) => chk("is_empty", r == (view(&t).len == 0)) } }
                "c_k_len" => { let t = s.terminals(); let k = s.usize(); if !wf(&t) { return Ok(None); }
                    match run(move || t.k_len(k)) { Err(e) => Some(e), Ok(r) => chk("k_len", r == std::cmp::min(view(&t).len, k)) } }
                "c_last" => { let t = s.terminals(); if !wf(&t) { return Ok(None); }
                    match run(move || t.last()) { Err(e) => Some(e), Ok(r) => chk("last_post", last_post(&t, &r)) } }
                "c_is_eps" => { let t = s.terminals(); if !wf(&t) { return Ok(None); }
                    match run(move || t.is_eps()) { Err(e) => Some(e), Ok(r) => chk("is_eps", r == v_is_eps(&view(&t))) } }
                "c_is_k_complete" => { let t = s.terminals(); let k = s.usize(); if !wf(&t) { return Ok(None); }
                    match run(move || t.is_k_complete(k)) { Err(e) => Some(e), Ok(r) => chk("is_k_complete", r == v_complete(&view(&t), k)) } }
                "c_clear" => { let t = s.terminals(); if !hdr_ok(&t) { return Ok(None); }
                    match run(move || { let mut n = t; n.clear(); n }) { Err(e) => Some(e), Ok(n) => chk("clear_post", clear_post(&t, &n)) } }
                "c_inc_index" => { let t = s.terminals(); if !(hdr_ok(&t) && t.next_index() < 10) { return Ok(None); }
                    match run(move || { let mut n = t; n.inc_index(); n }) { Err(e) => Some(e), Ok(n) => chk("inc_post", inc_post(&t, &n)) } }
                "c_k_concat" => { let a = s.terminals(); let b = s.terminals(); let k = s.usize(); if !kconcat_pre(&a, &b, k) { return Ok(None); }
                    match run(move || a.k_concat(&b, k)) { Err(e) => Some(e), Ok(r) => chk("kconcat_post", kconcat_post(&a, &b, k, &r)) } }
                "c_ts_k_concat" => { let a = s.tstring(); let b = s.tstring(); let k = s.usize(); if !ts_kconcat_pre(&a, &b, k) { return Ok(None); }
                    match run(move || a.k_concat(&b, k)) { Err(e) => Some(e), Ok(r) => chk("ts_kconcat_post", ts_kconcat_post(&a, &b, k, &r)) } }
                _ => return Err(format!("no native twin for harness {name}")),
            };
            Ok(out)
        }
    }
}
