// ---------------- trusted border of unit c03_lr_parse_into ----------------
/// the token, reduced to the field the trace output reads
pub struct Token<'t> { pub token_type: TerminalIndex, pub rest: TokenRest<'t> }
#[verifier::external_body] pub struct TokenRest<'t> { _x: &'t u8 }
impl<'t> Clone for Token<'t> {
    #[verifier::external_body]
    fn clone(&self) -> (r: Self) ensures r == *self { unimplemented!() }
}
#[verifier::external_body] pub struct OtherError { _x: u8 }
#[verifier::external_body] pub struct LexerError { _x: u8 }
#[verifier::external_body] pub struct SyntaxError { _x: u8 }
/// the variants the LR parse loop constructs (the real enums have more)
pub enum ParserError {
    MaxParsingDepthExceeded { depth: usize },
    InternalError(String),
    SyntaxErrors { entries: Vec<SyntaxError> },
}
pub enum ParolError { ParserError(ParserError), Other(OtherError) }
impl From<ParserError> for ParolError {
    #[verifier::external_body]
    fn from(e: ParserError) -> (r: ParolError) { unimplemented!() }
}
impl From<LexerError> for ParolError {
    #[verifier::external_body]
    fn from(e: LexerError) -> (r: ParolError) { unimplemented!() }
}
pub type Result<T> = std::result::Result<T, ParolError>;
// R5: format!(..) -> fmt_opaque(): the message text is not specified
#[verifier::external_body]
pub fn fmt_opaque() -> String { unimplemented!() }
/// R15: the meaning of `s.iter().position(f)`: the first index at which f yields true
#[verifier::external_body]
pub fn slice_position<T, F: Fn(&T) -> bool>(s: &[T], f: F) -> (r: Option<usize>)
    requires forall|i: int| 0 <= i < s@.len() ==> f.requires((&#[trigger] s@[i],))
    ensures
        r is Some ==> r->Some_0 < s@.len() && f.ensures((&s@[r->Some_0 as int],), true),
        r is Some ==> forall|j: int| 0 <= j < r->Some_0 ==> f.ensures((&#[trigger] s@[j],), false),
        r is None ==> forall|j: int| 0 <= j < s@.len() ==> f.ensures((&#[trigger] s@[j],), false),
{ unimplemented!() }
/// the parse tree stack: proved in unit c14_parse_tree_stack; here its content is irrelevant (opaque)
#[verifier::external_body] #[verifier::reject_recursive_types(T)] pub struct ParseTreeStack<T> { _x: Vec<T> }
impl<T> ParseTreeStack<T> {
    #[verifier::external_body]
    pub fn new() -> (r: Self) { unimplemented!() }
    #[verifier::external_body]
    pub fn push(&mut self, node: T) { unimplemented!() }
    pub uninterp spec fn spec_is_empty(&self) -> bool;
    #[verifier::external_body]
    #[verifier::when_used_as_spec(spec_is_empty)]
    pub fn is_empty(&self) -> (r: bool) ensures r == self.spec_is_empty() { unimplemented!() }
    #[verifier::external_body]
    pub fn pop_all(&mut self) -> (r: Vec<T>) { unimplemented!() }
}
/// the token stream, opaque: the methods the LR parse loop calls (proved with their full contracts in unit ts_stream)
#[verifier::external_body] #[verifier::reject_recursive_types(F)] pub struct TokenStream<'t, F> { _x: &'t u8, _f: Option<F> }
impl<'t, F> TokenStream<'t, F> {
    #[verifier::external_body]
    pub fn lookahead_token_type(&mut self, n: usize) -> (r: std::result::Result<TerminalIndex, LexerError>) { unimplemented!() }
    #[verifier::external_body]
    pub fn consume(&mut self) -> (r: std::result::Result<Token<'t>, LexerError>) { unimplemented!() }
}
/// the user-action interface as a recorder of the reductions reported so far (production numbers, in order)
pub trait UserActionsTrait<'t> {
    spec fn calls(&self) -> Seq<ProductionIndex>;
    fn call_semantic_action_for_production_number(&mut self, prod_num: ProductionIndex, children: &[ParseTreeType<'t>]) -> (r: Result<()>)
        ensures final(self).calls() == old(self).calls().push(prod_num);
    fn on_comment(&mut self, token: Token<'t>)
        ensures final(self).calls() == old(self).calls();
}
#[verifier::external_body] pub struct ParseTreeType<'t> { _x: &'t u8 }
/// the tree builder interface (error type opaque); build_tree feeds it from the finished LR parse tree
pub trait TreeConstruct<'t> {
    type Error;
    type Tree;
}
#[verifier::external_body]
pub fn build_tree<'a, T: TreeConstruct<'a>>(builder: &mut T, parse_tree: LRParseTree<'a>) -> (r: Result<()>) { unimplemented!() }
