// ---------------- specification of unit c03_lr_parse_into ----------------
/// the first entry of a state's action list for a terminal (what LR1State::action_index finds)
pub open spec fn first_action(a: Seq<(TerminalIndex, LRActionIndex)>, t: TerminalIndex) -> Option<LRActionIndex> decreases a.len() {
    if a.len() == 0 { None } else if a[0].0 == t { Some(a[0].1) } else { first_action(a.drop_first(), t) }
}
pub open spec fn first_goto(g: Seq<(NonTerminalIndex, usize)>, n: NonTerminalIndex) -> Option<usize> decreases g.len() {
    if g.len() == 0 { None } else if g[0].0 == n { Some(g[0].1) } else { first_goto(g.drop_first(), n) }
}
pub open spec fn action_ok(a: LRAction, ns: int, np: int) -> bool {
    match a { LRAction::Shift(s) => s < ns, LRAction::Reduce(_, p) => p < np, LRAction::Accept => true }
}
/// well-formed generated LR tables: every action index, shift target, goto target and production number is in range
pub open spec fn lr_tables_ok(t: &LRParseTable, np: int) -> bool {
    &&& t.states@.len() > 0
    &&& forall|a: int| 0 <= a < t.actions@.len() ==> action_ok(#[trigger] t.actions@[a], t.states@.len() as int, np)
    &&& forall|s: int, i: int| 0 <= s < t.states@.len() && 0 <= i < t.states@[s].actions@.len() ==> (#[trigger] t.states@[s].actions@[i]).1 < t.actions@.len()
    &&& forall|s: int, i: int| 0 <= s < t.states@.len() && 0 <= i < t.states@[s].gotos@.len() ==> (#[trigger] t.states@[s].gotos@[i]).1 < t.states@.len()
}
pub open spec fn states_ok(s: Seq<usize>, ns: int) -> bool { forall|i: int| 0 <= i < s.len() ==> #[trigger] s[i] < ns }
pub proof fn first_action_in_range(a: Seq<(TerminalIndex, LRActionIndex)>, t: TerminalIndex, bound: int)
    requires forall|i: int| 0 <= i < a.len() ==> (#[trigger] a[i]).1 < bound
    ensures first_action(a, t) is Some ==> first_action(a, t)->Some_0 < bound
    decreases a.len()
{
    if a.len() > 0 && a[0].0 != t {
        assert forall|i: int| 0 <= i < a.drop_first().len() implies (#[trigger] a.drop_first()[i]).1 < bound by { assert(a.drop_first()[i] == a[i + 1]); }
        first_action_in_range(a.drop_first(), t, bound);
    }
}
pub proof fn first_goto_in_range(g: Seq<(NonTerminalIndex, usize)>, n: NonTerminalIndex, bound: int)
    requires forall|i: int| 0 <= i < g.len() ==> (#[trigger] g[i]).1 < bound
    ensures first_goto(g, n) is Some ==> first_goto(g, n)->Some_0 < bound
    decreases g.len()
{
    if g.len() > 0 && g[0].0 != n {
        assert forall|i: int| 0 <= i < g.drop_first().len() implies (#[trigger] g.drop_first()[i]).1 < bound by { assert(g.drop_first()[i] == g[i + 1]); }
        first_goto_in_range(g.drop_first(), n, bound);
    }
}
