// ---------------- trusted border of unit c02_process_item_stack ----------------
#[verifier::external_body] pub struct Token<'t> { _x: &'t u8 }
#[verifier::external_body] pub struct ParolError { _x: u8 }
#[verifier::external_body] pub struct LookaheadDFA { _x: u8 }
#[verifier::external_body] pub struct SyntaxError { _x: u8 }
pub type Result<T> = std::result::Result<T, ParolError>;
/// the user-action interface, modelled as a recorder: `calls()` is the ghost list of (production number, children) the
/// parser has handed to the user so far.  An action may fail; if it returns, the call is recorded.
pub trait UserActionsTrait<'t> {
    spec fn calls(&self) -> Seq<(ProductionIndex, Seq<ParseTreeType<'t>>)>;
    fn call_semantic_action_for_production_number(&mut self, prod_num: ProductionIndex, children: &[ParseTreeType<'t>]) -> (r: Result<()>)
        ensures final(self).calls() == old(self).calls().push((prod_num, children@));
    fn on_comment(&mut self, token: Token<'t>)
        ensures final(self).calls() == old(self).calls();
}
/// the tree builder interface (error type opaque)
pub trait TreeConstruct<'t> {
    type Error;
    type Tree;
    fn open_non_terminal(&mut self, name: &'static str, size_hint: Option<usize>) -> std::result::Result<(), Self::Error>;
    fn close_non_terminal(&mut self) -> std::result::Result<(), Self::Error>;
}
/// the parse tree stack: contracts of len/split_off as PROVED in unit c14_parse_tree_stack (checked clause by clause)
