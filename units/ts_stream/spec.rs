// ---- spec (hand-written, code-independent)
pub enum Sel { Sig, Comment }
pub open spec fn is_skip_ty(ty: u16) -> bool { (ty > 0 && ty < 5) || ty == 0xFFFE }
pub open spec fn is_comment_ty(ty: u16) -> bool { ty == 3 || ty == 4 }
pub open spec fn eff_skip(t: Token) -> bool { is_skip_ty(t.token_type) || t.state_skip }
pub open spec fn sel(k: Sel, t: Token) -> bool { match k { Sel::Sig => !eff_skip(t), Sel::Comment => is_comment_ty(t.token_type) } }
pub open spec fn filt<'t>(k: Sel, s: Seq<Token<'t>>) -> Seq<Token<'t>> decreases s.len() {
   if s.len() == 0 { Seq::empty() } else { let r = filt(k, s.drop_last()); if sel(k, s.last()) { r.push(s.last()) } else { r } }
}
pub open spec fn nonskip<'t>(s: Seq<Token<'t>>) -> Seq<Token<'t>> { filt(Sel::Sig, s) }
pub open spec fn comments<'t>(s: Seq<Token<'t>>) -> Seq<Token<'t>> { filt(Sel::Comment, s) }
// line/column after advancing over a text, as the scanner counts them ('\n' starts a new line at column 1; saturating at u32::MAX)
pub open spec fn sat32(x: int) -> int { if x > 0xFFFF_FFFF { 0xFFFF_FFFF } else { x } }
pub open spec fn adv(line: int, col: int, s: Seq<char>) -> (int, int) decreases s.len() {
    if s.len() == 0 { (line, col) } else {
        let p = adv(line, col, s.drop_last());
        if s.last() == '\n' { (sat32(p.0 + 1), 1int) } else { (p.0, sat32(p.1 + 1)) }
    }
}
pub open spec fn types<'t>(s: Seq<Token<'t>>) -> Seq<u16> { s.map_values(|t: Token<'t>| t.token_type) }
pub open spec fn is_nth<'t>(s: Seq<Token<'t>>, n: int, j: int) -> bool {
    0 <= j < s.len() && !eff_skip(s[j]) && nonskip(s.take(j)).len() == n
}
pub open spec fn ext<'t>(a: Seq<Token<'t>>, b: Seq<Token<'t>>) -> bool {
    a.len() <= b.len() && b.take(a.len() as int) == a && forall|i: int| a.len() <= i < b.len() ==> (#[trigger] b[i]).token_type == EOI
}
pub open spec fn state_skip_spec(tbl: &[&[u16]], ty: u16, mode: usize) -> bool { mode < tbl@.len() && tbl@[mode as int]@.contains(ty) }
pub open spec fn mark<'t>(tbl: &[&[u16]], p: (usize, Token<'t>)) -> Token<'t> { Token { state_skip: state_skip_spec(tbl, p.1.token_type, p.0), ..p.1 } }
pub open spec fn marked<'t>(tbl: &[&[u16]], s: Seq<(usize, Token<'t>)>) -> Seq<Token<'t>> { s.map_values(|p: (usize, Token<'t>)| mark(tbl, p)) }

pub proof fn filt_add<'t>(k: Sel, a: Seq<Token<'t>>, b: Seq<Token<'t>>)
    ensures filt(k, a + b) == filt(k, a) + filt(k, b)
    decreases b.len()
{
    if b.len() == 0 {
        assert(a + b == a);
        assert(filt(k, b) == Seq::<Token<'t>>::empty());
        assert(filt(k, a) + filt(k, b) == filt(k, a));
    } else {
        filt_add(k, a, b.drop_last());
        assert((a + b).drop_last() == a + b.drop_last());
        assert((a + b).last() == b.last());
        if sel(k, b.last()) {
            assert((filt(k, a) + filt(k, b.drop_last())).push(b.last()) == filt(k, a) + filt(k, b.drop_last()).push(b.last()));
        }
    }
}
pub proof fn filt_one<'t>(k: Sel, t: Token<'t>)
    ensures filt(k, seq![t]) == (if sel(k, t) { seq![t] } else { Seq::<Token<'t>>::empty() })
{
    assert(seq![t].drop_last() == Seq::<Token<'t>>::empty());
    assert(filt(k, Seq::<Token<'t>>::empty()) == Seq::<Token<'t>>::empty());
    assert(Seq::<Token<'t>>::empty().push(t) == seq![t]);
}
pub proof fn filt_empty<'t>(k: Sel)
    ensures filt(k, Seq::<Token<'t>>::empty()) == Seq::<Token<'t>>::empty()
{}
pub proof fn filt_push<'t>(k: Sel, s: Seq<Token<'t>>, t: Token<'t>)
    ensures filt(k, s.push(t)) == (if sel(k, t) { filt(k, s).push(t) } else { filt(k, s) })
{
    assert(s.push(t).drop_last() == s);
}
pub proof fn filt_len_le<'t>(k: Sel, s: Seq<Token<'t>>)
    ensures filt(k, s).len() <= s.len()
    decreases s.len()
{
    if s.len() > 0 { filt_len_le(k, s.drop_last()); }
}
pub proof fn filt_all<'t>(k: Sel, s: Seq<Token<'t>>)
    requires forall|i: int| 0 <= i < s.len() ==> !sel(k, #[trigger] s[i])
    ensures filt(k, s) == Seq::<Token<'t>>::empty()
    decreases s.len()
{
    if s.len() > 0 { filt_all(k, s.drop_last()); }
}
pub proof fn nth_facts<'t>(s: Seq<Token<'t>>, n: int, j: int)
    requires is_nth(s, n, j)
    ensures n < nonskip(s).len(), nonskip(s)[n] == s[j],
            nonskip(s.remove(j)) == nonskip(s).remove(n),
            forall|t: Token<'t>| !eff_skip(t) ==> #[trigger] nonskip(s.insert(j, t)) == nonskip(s).insert(n, t),
            forall|t: Token<'t>| eff_skip(t) ==> #[trigger] nonskip(s.insert(j, t)) == nonskip(s),
            forall|t: Token<'t>| !eff_skip(t) ==> #[trigger] nonskip(s.update(j, t)) == nonskip(s).update(n, t),
            comments(s.remove(j)) == comments(s),
{
    let k = Sel::Sig;
    let a = s.take(j); let b = s.skip(j + 1); let m = seq![s[j]];
    assert(s == a + m + b);
    filt_add(k, a + m, b); filt_add(k, a, m); filt_one(k, s[j]);
    assert(s.remove(j) == a + b);
    filt_add(k, a, b);
    assert(nonskip(s) == nonskip(a) + seq![s[j]] + nonskip(b));
    assert((nonskip(a) + seq![s[j]] + nonskip(b)).remove(n) == nonskip(a) + nonskip(b));
    assert forall|t: Token<'t>| !eff_skip(t) implies #[trigger] nonskip(s.insert(j, t)) == nonskip(s).insert(n, t) by {
        assert(s.insert(j, t) == a + seq![t] + (m + b));
        filt_add(k, a + seq![t], m + b); filt_add(k, a, seq![t]); filt_add(k, m, b); filt_one(k, t);
        assert(nonskip(a) + seq![t] + (seq![s[j]] + nonskip(b)) == (nonskip(a) + seq![s[j]] + nonskip(b)).insert(n, t));
    }
    assert forall|t: Token<'t>| eff_skip(t) implies #[trigger] nonskip(s.insert(j, t)) == nonskip(s) by {
        assert(s.insert(j, t) == a + seq![t] + (m + b));
        filt_add(k, a + seq![t], m + b); filt_add(k, a, seq![t]); filt_add(k, m, b); filt_one(k, t);
        assert(nonskip(a) + Seq::<Token<'t>>::empty() + (seq![s[j]] + nonskip(b)) == nonskip(a) + seq![s[j]] + nonskip(b));
    }
    assert forall|t: Token<'t>| !eff_skip(t) implies #[trigger] nonskip(s.update(j, t)) == nonskip(s).update(n, t) by {
        assert(s.update(j, t) == a + seq![t] + b);
        filt_add(k, a + seq![t], b); filt_add(k, a, seq![t]); filt_one(k, t);
        assert(nonskip(a) + seq![t] + nonskip(b) == (nonskip(a) + seq![s[j]] + nonskip(b)).update(n, t));
    }
    let c = Sel::Comment;
    filt_add(c, a + m, b); filt_add(c, a, m); filt_one(c, s[j]); filt_add(c, a, b);
    assert(filt(c, a) + Seq::<Token<'t>>::empty() + filt(c, b) == filt(c, a) + filt(c, b));
}
pub proof fn take_push<'t>(s: Seq<Token<'t>>, i: int)
    requires 0 <= i < s.len()
    ensures nonskip(s.take(i + 1)) == (if eff_skip(s[i]) { nonskip(s.take(i)) } else { nonskip(s.take(i)).push(s[i]) })
{
    assert(s.take(i + 1).drop_last() == s.take(i));
    assert(s.take(i + 1).last() == s[i]);
}
/// existence of the position of the n-th significant token
pub proof fn nth_exists<'t>(s: Seq<Token<'t>>, n: int) -> (j: int)
    requires 0 <= n < nonskip(s).len()
    ensures is_nth(s, n, j)
    decreases s.len()
{
    let k = Sel::Sig;
    if sel(k, s.last()) && filt(k, s.drop_last()).len() == n {
        assert(s.take(s.len() - 1) == s.drop_last());
        s.len() - 1
    } else {
        let j = nth_exists(s.drop_last(), n);
        assert(s.drop_last().take(j) == s.take(j));
        j
    }
}
pub proof fn sig_prefix<'t>(b: Seq<Token<'t>>, f: Seq<Token<'t>>)
    ensures nonskip(b + f) == nonskip(b) + nonskip(f), nonskip(b).len() <= nonskip(b + f).len(),
            forall|i: int| 0 <= i < nonskip(b).len() ==> nonskip(b + f)[i] == nonskip(b)[i],
{
    filt_add(Sel::Sig, b, f);
}
pub open spec fn up_of<'t>(s: Seq<Token<'t>>, i: int) -> u16 { if 0 <= i < s.len() { s[i].token_type } else { EOI } }
pub proof fn up_stable<'t>(a: Seq<Token<'t>>, b: Seq<Token<'t>>, i: int)
    requires ext(a, b), 0 <= i
    ensures up_of(a, i) == up_of(b, i)
{
    if i < a.len() { assert(b.take(a.len() as int)[i] == b[i]); }
}
pub proof fn ext_cons<'t>(t: Token<'t>, a: Seq<Token<'t>>, b: Seq<Token<'t>>)
    requires ext(a, b)
    ensures ext(seq![t] + a, seq![t] + b)
{
    let x = seq![t] + a; let y = seq![t] + b;
    assert(y.take(x.len() as int) =~= x) by {
        assert forall|i: int| 0 <= i < x.len() implies y.take(x.len() as int)[i] == x[i] by {
            if i > 0 { assert(b.take(a.len() as int)[i - 1] == b[i - 1]); }
        }
    }
    assert forall|i: int| x.len() <= i < y.len() implies (#[trigger] y[i]).token_type == EOI by { assert(y[i] == b[i - 1]); }
}
pub proof fn ext_trans<'t>(a: Seq<Token<'t>>, b: Seq<Token<'t>>, c: Seq<Token<'t>>)
    requires ext(a, b), ext(b, c)
    ensures ext(a, c)
{
    assert(c.take(a.len() as int) =~= a) by {
        assert forall|i: int| 0 <= i < a.len() implies c.take(a.len() as int)[i] == a[i] by {
            assert(b.take(a.len() as int)[i] == b[i]); assert(c.take(b.len() as int)[i] == c[i]);
        }
    }
    assert forall|i: int| a.len() <= i < c.len() implies (#[trigger] c[i]).token_type == EOI by {
        if i < b.len() { assert(c.take(b.len() as int)[i] == c[i]); }
    }
}
pub proof fn ins_comments<'t>(s: Seq<Token<'t>>, j: int, t: Token<'t>)
    requires 0 <= j <= s.len()
    ensures comments(s.insert(j, t)).len() >= comments(s).len()
{
    let a = s.take(j); let b = s.skip(j);
    assert(s == a + b); assert(s.insert(j, t) == a + seq![t] + b);
    filt_add(Sel::Comment, a, b); filt_add(Sel::Comment, a + seq![t], b); filt_add(Sel::Comment, a, seq![t]);
}
pub proof fn first_sig<'t>(b: Seq<Token<'t>>)
    requires b.len() > 0
    ensures !eff_skip(b[0]) ==> nonskip(b).len() > 0 && nonskip(b)[0] == b[0],
            eff_skip(b[0]) ==> nonskip(b) == nonskip(b.skip(1)),
{
    assert(b == seq![b[0]] + b.skip(1));
    filt_add(Sel::Sig, seq![b[0]], b.skip(1)); filt_one(Sel::Sig, b[0]);
    assert(Seq::<Token<'t>>::empty() + nonskip(b.skip(1)) == nonskip(b.skip(1)));
}
pub proof fn ins_facts<'t>(b0: Seq<Token<'t>>, b1: Seq<Token<'t>>, index: int, token_type: u16)
    requires
        0 <= index,
        exists|j: int, t: Token<'t>| (is_nth(b0, index, j) || (j == b0.len() && nonskip(b0).len() <= index))
            && b1 == #[trigger] b0.insert(j, t) && t.token_type == token_type && !t.state_skip,
    ensures
        (!is_skip_ty(token_type) && index <= nonskip(b0).len()) ==> types(nonskip(b1)) == types(nonskip(b0)).insert(index, token_type),
        comments(b1).len() >= comments(b0).len(),
{
    let (j, t) = choose|j: int, t: Token<'t>| (is_nth(b0, index, j) || (j == b0.len() && nonskip(b0).len() <= index))
            && b1 == #[trigger] b0.insert(j, t) && t.token_type == token_type && !t.state_skip;
    if !is_skip_ty(token_type) && index <= nonskip(b0).len() {
        assert(!eff_skip(t));
        if is_nth(b0, index, j) { nth_facts(b0, index, j); }
        else {
            assert(b0.insert(j, t) =~= b0.push(t)); filt_push(Sel::Sig, b0, t);
            assert(nonskip(b0).push(t) =~= nonskip(b0).insert(index, t));
        }
        assert(types(nonskip(b0).insert(index, t)) =~= types(nonskip(b0)).insert(index, token_type));
    }
    ins_comments(b0, j, t);
}
pub proof fn step_lemma<'t>(k: Sel, buf: Seq<Token<'t>>, g: Seq<Token<'t>>, tok: Token<'t>, fut: Seq<Token<'t>>)
    requires fut.len() > 0, fut[0] == tok, forall|i: int| 0 <= i < g.len() ==> !sel(k, #[trigger] g[i])
    ensures filt(k, (buf + g).push(tok) + fut.drop_first()) == filt(k, buf + fut),
            filt(k, (buf + g).push(tok)) == filt(k, buf) + filt(k, seq![tok]),
{
    let f2 = fut.drop_first();
    assert(fut == seq![tok] + f2);
    assert((buf + g).push(tok) + f2 == buf + g + seq![tok] + f2);
    assert(buf + fut == buf + seq![tok] + f2);
    filt_add(k, buf + g + seq![tok], f2); filt_add(k, buf + g, seq![tok]); filt_add(k, buf, g); filt_all(k, g);
    filt_add(k, buf + seq![tok], f2); filt_add(k, buf, seq![tok]);
    assert(filt(k, buf) + Seq::<Token<'t>>::empty() == filt(k, buf));
    assert((buf + g).push(tok) == buf + g + seq![tok]);
}
