// Native witness search / replay for unit ts_stream (NOT the deciding step, see DESIGN.md 3.6): exercises
// LLKParser::adjust_token_stream only.  The function text below is the text extracted from /repo on this run (rules R1, R6, R8
// applied, no contract); Recovery::levenshtein_distance is the real function too.  The token stream is a 12-line in-memory
// MODEL implementing exactly the contracts that unit ts_stream proves for replace_token_type_at / insert_token_at /
// remove_token_at (significant token types as a Vec<u16>; replacing end-of-input fails).
#![allow(warnings)]
pub type TerminalIndex = u16;
const EOI: TerminalIndex = 0;
//@item enum EditOp
#[derive(Debug)] pub enum LexerError { RecoveryError(String) }
#[derive(Debug)] pub struct ParolError;
impl From<LexerError> for ParolError { fn from(_: LexerError) -> Self { ParolError } }
pub type Result<T> = std::result::Result<T, ParolError>;
pub struct TokenStream<'t, F> { pub types: Vec<u16>, _p: std::marker::PhantomData<(&'t (), F)> }
impl<'t, F> TokenStream<'t, F> {
    pub fn replace_token_type_at(&mut self, index: usize, token_type: u16) -> std::result::Result<(), LexerError> {
        if index < self.types.len() && self.types[index] != EOI { self.types[index] = token_type; Ok(()) } else { Err(LexerError::RecoveryError(String::new())) }
    }
    pub fn insert_token_at(&mut self, index: usize, token_type: u16) -> std::result::Result<(), LexerError> {
        if index <= self.types.len() { self.types.insert(index, token_type); Ok(()) } else { Err(LexerError::RecoveryError(String::new())) }
    }
    pub fn remove_token_at(&mut self, index: usize) -> std::result::Result<(), LexerError> {
        if index < self.types.len() { self.types.remove(index); Ok(()) } else { Err(LexerError::RecoveryError(String::new())) }
    }
}
pub struct Recovery;
impl Recovery {
//@item impl Recovery :: fn levenshtein_distance
}
pub struct LLKParser<'t> { _p: std::marker::PhantomData<&'t ()> }
impl<'t> LLKParser<'t> {
//@item impl LLKParser<'t> :: fn adjust_token_stream
}

type F = fn(char) -> Option<usize>;
/// contract of adjust_token_stream on the model: no panic; Ok implies the stream's significant types ARE the expected ones
fn violation(scanned: &[u16], expected: &[u16]) -> Option<String> {
    let (s, e) = (scanned.to_vec(), expected.to_vec());
    let r = std::panic::catch_unwind(move || {
        let mut p = LLKParser { _p: std::marker::PhantomData };
        let mut ts: TokenStream<'static, F> = TokenStream { types: s.clone(), _p: std::marker::PhantomData };
        let r = p.adjust_token_stream(s, e, &mut ts);
        (r.is_ok(), ts.types)
    });
    match r {
        Err(_) => Some("panic".to_string()),
        Ok((true, got)) if got != expected => Some(format!("returned Ok but the stream holds {:?} instead of the expected token types", got)),
        _ => None,
    }
}
fn seqs(alpha: &[u16], maxlen: usize) -> Vec<Vec<u16>> {
    let mut out = vec![vec![]];
    let mut cur: Vec<Vec<u16>> = vec![vec![]];
    for _ in 0..maxlen {
        let mut next = vec![];
        for s in &cur { for c in alpha { let mut t = s.clone(); t.push(*c); next.push(t); } }
        out.extend(next.iter().cloned());
        cur = next;
    }
    out
}
fn parse_list(s: &str, key: &str) -> Vec<u16> {
    let k = format!("\"{}\"", key);
    let rest = &s[s.find(&k).expect("key")..];
    rest[rest.find('[').unwrap() + 1..rest.find(']').unwrap()].split(',').filter_map(|x| x.trim().parse().ok()).collect()
}
fn main() {
    std::panic::set_hook(Box::new(|_| {}));
    let args: Vec<String> = std::env::args().collect();
    if args[1] == "search" {
        let maxlen: usize = args[2].parse().unwrap();
        // scanned sequences may hold end-of-input (0); expected ones are user terminals only (no skip types: precondition)
        let sc = seqs(&[0, 5, 6, 7], maxlen);
        let ex = seqs(&[5, 6, 7], maxlen);
        let mut n = 0u64;
        for a in &sc { for b in &ex {
            n += 1;
            if let Some(why) = violation(a, b) {
                println!("WITNESS {{\"fn\":\"adjust_token_stream\",\"scanned\":{:?},\"expected\":{:?},\"why\":\"{}\"}}", a, b, why);
                return;
            }
        } }
        println!("NONE cases={}", n);
    } else {
        let (a, b) = (parse_list(&args[2], "scanned"), parse_list(&args[2], "expected"));
        match violation(&a, &b) {
            Some(why) => { println!("adjust_token_stream(scanned {:?}, expected {:?}) violates its contract: {}", a, b, why); std::process::exit(1); }
            None => println!("adjust_token_stream(scanned {:?}, expected {:?}) satisfies its contract", a, b),
        }
    }
}
