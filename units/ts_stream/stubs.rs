// ---------------- trusted border of unit ts_stream (hand-written; every item is an assumption) ----------------
// external types the real structs mention
#[verifier::external_type_specification]
#[verifier::external_body]
pub struct ExPathBuf(PathBuf);

// R5: format!(..) -> fmt_opaque(); the message text is not part of any claimed property
#[verifier::external_body]
pub fn fmt_opaque() -> String { unimplemented!() }

// R9: `&input[a..b]` -> str_slice(input, a, b).  Only `a <= b` is required here; the length / char-boundary
// precondition of str indexing is NOT checked (scnr2 match spans are assumed to lie on char boundaries inside the input)
pub uninterp spec fn str_sub(s: &str, a: int, b: int) -> Seq<char>;
#[verifier::external_body]
pub fn str_slice<'a>(s: &'a str, a: usize, b: usize) -> (r: &'a str)
    requires a <= b,
    ensures r@ == str_sub(s, a as int, b as int)
{ unimplemented!() }

// derive_builder output for Location (the real Location struct is extracted; its generated builder is not)
#[verifier::external_body]
pub struct LocationBuilder { _p: u8 }
#[verifier::external_body]
pub struct LocationBuilderError { _p: u8 }
impl LocationBuilderError {
    #[verifier::external_body]
    pub fn to_string(&self) -> String { unimplemented!() }
}
impl Default for LocationBuilder {
    #[verifier::external_body]
    fn default() -> Self { unimplemented!() }
}
impl LocationBuilder {
    #[verifier::external_body]
    pub fn file_name(&mut self, v: Arc<PathBuf>) -> &mut Self { unimplemented!() }
    #[verifier::external_body]
    pub fn build(&self) -> Result<Location, LocationBuilderError> { unimplemented!() }
}

// the derives R6 drops from Location / Token (derived Clone is structural, derived Default is all-zero / false / empty)
impl Default for Location {
    #[verifier::external_body]
    fn default() -> (r: Self) ensures r.start_line == 0, r.start_column == 0, r.end_line == 0, r.end_column == 0, r.start == 0, r.end == 0 { unimplemented!() }
}
impl Clone for Location {
    #[verifier::external_body]
    fn clone(&self) -> (r: Self) ensures r == *self { unimplemented!() }
}
impl<'t> Clone for Token<'t> {
    #[verifier::external_body]
    fn clone(&self) -> (r: Self) ensures r == *self { unimplemented!() }
}
impl<'t> Default for Token<'t> {
    #[verifier::external_body]
    fn default() -> (r: Self) ensures r.token_type == 0, !r.state_skip, r.token_number == 0 { unimplemented!() }
}

// std functions without a vstd specification
pub assume_specification<T, F: FnOnce(T) -> bool>[ Option::<T>::is_some_and ](o: Option<T>, f: F) -> (r: bool)
    requires o is Some ==> f.requires((o->Some_0,)),
    ensures o is None ==> !r, o is Some ==> f.ensures((o->Some_0,), r);
pub assume_specification<T: PartialEq>[ <[T]>::contains ](s: &[T], x: &T) -> (r: bool)
    ensures r == s@.contains(*x);

// the scanner adapter (scnr2 behind it): the token iterator yields a predetermined finite sequence of
// (scanner mode the token is read in, token); current_mode() before a next() is the mode of the token next() returns
#[verifier::external_body]
#[verifier::reject_recursive_types(F)]
pub struct TokenIter<'t, F> { _p: std::marker::PhantomData<(&'t (), F)> }
impl<'t, F> TokenIter<'t, F> {
    pub uninterp spec fn pending(&self) -> Seq<(usize, Token<'t>)>;
    #[verifier::external_body]
    pub fn current_mode(&self) -> (r: usize) ensures self.pending().len() > 0 ==> r == self.pending()[0].0 { unimplemented!() }
    #[verifier::external_body]
    pub fn next(&mut self) -> (r: Option<Token<'t>>)
      ensures old(self).pending().len() > 0 ==> r == Some(old(self).pending()[0].1) && final(self).pending() == old(self).pending().drop_first(),
              old(self).pending().len() == 0 ==> r is None && final(self).pending().len() == 0
    { unimplemented!() }
}
