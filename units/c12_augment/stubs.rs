// ---------- trusted border ----------
#[verifier::external_body]
pub struct Pr { _x: u8 }
impl Pr {
    pub uninterp spec fn lhs(&self) -> Seq<char>;
    pub uninterp spec fn rhs(&self) -> Seq<Symbol>;
    #[verifier::external_body]
    pub fn new(n: &str, r: Vec<Symbol>) -> (p: Pr)
        ensures p.lhs() == n@, p.rhs() == r@
    { unimplemented!() }
}
#[verifier::external_body]
pub struct NtSet { _x: u8 }
#[verifier::external_body]
pub struct NtIter { _x: u8 }
pub uninterp spec fn set_contains(s: &NtSet, n: Seq<char>) -> bool;
pub uninterp spec fn iter_contains(it: NtIter, n: Seq<char>) -> bool;
impl NtSet {
    #[verifier::external_body]
    pub fn iter(&self) -> (r: NtIter)
        ensures forall|n: Seq<char>| iter_contains(r, n) <==> set_contains(self, n)
    { unimplemented!() }
}
#[verifier::external_body]
pub fn generate_name(exclusions: NtIter, preferred_name: String) -> (r: String)
    ensures !iter_contains(exclusions, r@)
{ unimplemented!() }

impl Cfg {
    #[verifier::external_body]
    pub fn matching_productions(&self, n: &str) -> (r: Vec<(usize, &Pr)>)
        ensures r.len() == count_lhs(self.pr@, n@)
    { unimplemented!() }
    #[verifier::external_body]
    pub fn get_non_terminal_set(&self) -> (r: NtSet)
        ensures forall|n: Seq<char>| in_nt_set(self, n) <==> set_contains(&r, n)
    { unimplemented!() }
    #[verifier::external_body]
    pub fn clone(&self) -> (r: Cfg) ensures r.st@ == self.st@, r.pr@ == self.pr@ { unimplemented!() }
}


/// contract of the private helper `is_used_on_rhs` in lr_augmentation.rs (iterator code, not verifiable by Verus)
#[verifier::external_body]
pub fn is_used_on_rhs(cfg: &Cfg, n: &str) -> (r: bool)
    ensures r == occurs_on_rhs(cfg.pr@, n@)
{ unimplemented!() }

// parol_runtime::Result / ParolError as used by generators/grammar_trans.rs (opaque error type)
#[verifier::external_body]
pub struct ParolError { _x: u8 }
pub type Result<T> = std::result::Result<T, ParolError>;
