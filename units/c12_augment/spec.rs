// ---------- spec ----------
pub open spec fn nt_occurs(s: Symbol, n: Seq<char>) -> bool {
    match s { Symbol::N(m, _, _, _) => m@ == n, _ => false }
}
pub open spec fn occurs_on_rhs(pr: Seq<Pr>, n: Seq<char>) -> bool {
    exists|i: int, j: int| 0 <= i < pr.len() && 0 <= j < pr[i].rhs().len() && nt_occurs(#[trigger] pr[i].rhs()[j], n)
}
pub open spec fn count_lhs(pr: Seq<Pr>, n: Seq<char>) -> nat decreases pr.len() {
    if pr.len() == 0 { 0 } else { (if pr[0].lhs() == n { 1nat } else { 0nat }) + count_lhs(pr.skip(1), n) }
}
pub open spec fn in_nt_set(cfg: &Cfg, n: Seq<char>) -> bool {
    n == cfg.st@ || (exists|i: int| 0 <= i < cfg.pr.len() && #[trigger] cfg.pr[i].lhs() == n) || occurs_on_rhs(cfg.pr@, n)
}
pub proof fn count_lhs_zero(pr: Seq<Pr>, n: Seq<char>)
    requires forall|i: int| 0 <= i < pr.len() ==> #[trigger] pr[i].lhs() != n
    ensures count_lhs(pr, n) == 0
    decreases pr.len()
{ if pr.len() > 0 { count_lhs_zero(pr.skip(1), n); } }
pub proof fn count_lhs_fresh(pr: Seq<Pr>, n: Seq<char>, cfg: &Cfg)
    requires pr == cfg.pr@, !in_nt_set(cfg, n)
    ensures count_lhs(pr, n) == 0
{ count_lhs_zero(pr, n); }
pub proof fn count_lhs_cons(pr: Seq<Pr>, n: Seq<char>)
    requires pr.len() > 0
    ensures count_lhs(pr, n) == (if pr[0].lhs() == n { 1nat } else { 0nat }) + count_lhs(pr.skip(1), n)
{ }


/// counting left-hand sides is compositional over removing one production (wherever it sits)
pub proof fn count_lhs_remove(pr: Seq<Pr>, k: int, n: Seq<char>)
    requires 0 <= k < pr.len()
    ensures count_lhs(pr, n) == count_lhs(pr.remove(k), n) + (if pr[k].lhs() == n { 1nat } else { 0nat })
    decreases pr.len()
{
    if k == 0 {
        assert(pr.remove(0) =~= pr.skip(1));
    } else {
        count_lhs_remove(pr.skip(1), k - 1, n);
        assert(pr.remove(k).skip(1) =~= pr.skip(1).remove(k - 1));
        assert(pr.remove(k)[0] == pr[0]);
        assert(pr.skip(1)[k - 1] == pr[k]);
    }
}
/// an occurrence on a right-hand side is either in the k-th production or in one of the others
pub proof fn occurs_remove(pr: Seq<Pr>, k: int, n: Seq<char>)
    requires 0 <= k < pr.len(), occurs_on_rhs(pr, n)
    ensures (exists|j: int| 0 <= j < pr[k].rhs().len() && nt_occurs(#[trigger] pr[k].rhs()[j], n)) || occurs_on_rhs(pr.remove(k), n)
{
    let (i, j) = choose|i: int, j: int| 0 <= i < pr.len() && 0 <= j < pr[i].rhs().len() && nt_occurs(#[trigger] pr[i].rhs()[j], n);
    if i != k {
        let q = if i < k { i } else { i - 1 };
        assert(pr.remove(k)[q] == pr[i]);
        assert(nt_occurs(pr.remove(k)[q].rhs()[j], n));
    }
}
