// ---------- language of a grammar over sentential forms (code-independent) ----------
pub open spec fn is_sentence(w: Seq<Symbol>) -> bool { forall|i: int| 0 <= i < w.len() ==> !(#[trigger] w[i] is N) }
pub open spec fn no_nt(a: Seq<Symbol>, n: Seq<char>) -> bool { forall|i: int| 0 <= i < a.len() ==> !nt_occurs(#[trigger] a[i], n) }
/// one derivation step: the non-terminal at position i is replaced by the right-hand side of one of its productions
pub open spec fn step_at(pr: Seq<Pr>, a: Seq<Symbol>, b: Seq<Symbol>, p: int, i: int) -> bool {
    0 <= p < pr.len() && 0 <= i < a.len() && nt_occurs(a[i], pr[p].lhs()) && b == a.take(i) + pr[p].rhs() + a.skip(i + 1)
}
pub open spec fn step(pr: Seq<Pr>, a: Seq<Symbol>, b: Seq<Symbol>) -> bool { exists|p: int, i: int| step_at(pr, a, b, p, i) }
pub open spec fn derives(pr: Seq<Pr>, a: Seq<Symbol>, b: Seq<Symbol>, n: nat) -> bool decreases n {
    if n == 0 { a == b } else { exists|mid: Seq<Symbol>| step(pr, a, mid) && derives(pr, mid, b, (n - 1) as nat) }
}
/// w is generated from the start symbol st (any representation of the non-terminal named st)
pub open spec fn in_lang(pr: Seq<Pr>, st: Seq<char>, w: Seq<Symbol>) -> bool {
    exists|s0: Symbol, n: nat| nt_occurs(s0, st) && derives(pr, seq![s0], w, n)
}
/// big is small with ONE production S' -> S inserted at position k (any position), S' fresh
pub open spec fn aug_shape(small: Seq<Pr>, st: Seq<char>, big: Seq<Pr>, s1: Seq<char>, k: int) -> bool {
    0 <= k < big.len() && big.len() == small.len() + 1 && big.remove(k) == small
    && big[k].lhs() == s1 && big[k].rhs().len() == 1 && nt_occurs(big[k].rhs()[0], st)
    && s1 != st && (forall|i: int| 0 <= i < small.len() ==> #[trigger] small[i].lhs() != s1) && !occurs_on_rhs(small, s1)
}
proof fn step_mono(small: Seq<Pr>, big: Seq<Pr>, k: int, a: Seq<Symbol>, b: Seq<Symbol>)
    requires 0 <= k < big.len(), big.len() == small.len() + 1, big.remove(k) == small, step(small, a, b)
    ensures step(big, a, b)
{
    let (p, i) = choose|p: int, i: int| step_at(small, a, b, p, i);
    let q = if p < k { p } else { p + 1 };
    assert(big.remove(k)[p] == big[q]);
    assert(step_at(big, a, b, q, i));
}
proof fn derives_mono(small: Seq<Pr>, big: Seq<Pr>, k: int, a: Seq<Symbol>, b: Seq<Symbol>, n: nat)
    requires 0 <= k < big.len(), big.len() == small.len() + 1, big.remove(k) == small, derives(small, a, b, n)
    ensures derives(big, a, b, n)
    decreases n
{
    if n > 0 {
        let mid = choose|mid: Seq<Symbol>| step(small, a, mid) && derives(small, mid, b, (n - 1) as nat);
        step_mono(small, big, k, a, mid);
        derives_mono(small, big, k, mid, b, (n - 1) as nat);
    }
}
proof fn step_back(small: Seq<Pr>, st: Seq<char>, big: Seq<Pr>, s1: Seq<char>, k: int, a: Seq<Symbol>, b: Seq<Symbol>)
    requires aug_shape(small, st, big, s1, k), no_nt(a, s1), step(big, a, b)
    ensures step(small, a, b), no_nt(b, s1)
{
    let (p, i) = choose|p: int, i: int| step_at(big, a, b, p, i);
    if p == k { assert(nt_occurs(a[i], s1)); assert(false); }
    let q = if p < k { p } else { p - 1 };
    assert(big.remove(k)[q] == big[p]);
    assert(step_at(small, a, b, q, i));
    let r = small[q].rhs();
    assert forall|x: int| 0 <= x < b.len() implies !nt_occurs(#[trigger] b[x], s1) by {
        if x < i { assert(b[x] == a[x]); }
        else if x < i + r.len() { assert(b[x] == r[x - i]); if nt_occurs(r[x - i], s1) { assert(occurs_on_rhs(small, s1)); } }
        else { assert(b[x] == a[x - r.len() + 1]); }
    }
}
proof fn derives_back(small: Seq<Pr>, st: Seq<char>, big: Seq<Pr>, s1: Seq<char>, k: int, a: Seq<Symbol>, b: Seq<Symbol>, n: nat)
    requires aug_shape(small, st, big, s1, k), no_nt(a, s1), derives(big, a, b, n)
    ensures derives(small, a, b, n)
    decreases n
{
    if n > 0 {
        let mid = choose|mid: Seq<Symbol>| step(big, a, mid) && derives(big, mid, b, (n - 1) as nat);
        step_back(small, st, big, s1, k, a, mid);
        derives_back(small, st, big, s1, k, mid, b, (n - 1) as nat);
    }
}
/// the only step possible from a one-symbol form [s0]: position 0, giving exactly the right-hand side of the production used
proof fn step_single(pr: Seq<Pr>, s0: Symbol, mid: Seq<Symbol>) -> (p: int)
    requires step(pr, seq![s0], mid)
    ensures 0 <= p < pr.len(), nt_occurs(s0, pr[p].lhs()), mid == pr[p].rhs()
{
    let (p, i) = choose|p: int, i: int| step_at(pr, seq![s0], mid, p, i);
    assert(i == 0);
    assert(seq![s0].take(0) + pr[p].rhs() + seq![s0].skip(1) =~= pr[p].rhs());
    p
}
/// THEOREM: a grammar augmented by one fresh unit start production S' -> S generates the language of the original grammar
pub proof fn lang_preserved(small: Seq<Pr>, st: Seq<char>, big: Seq<Pr>, s1: Seq<char>, k: int, s1_sym: Symbol, w: Seq<Symbol>)
    requires aug_shape(small, st, big, s1, k), nt_occurs(s1_sym, s1), is_sentence(w)
    ensures in_lang(big, s1, w) <==> in_lang(small, st, w)
{
    if in_lang(big, s1, w) {
        let (s0, n) = choose|s0: Symbol, n: nat| nt_occurs(s0, s1) && derives(big, seq![s0], w, n);
        if n == 0 { assert(seq![s0][0] == w[0]); assert(false); }
        let mid = choose|mid: Seq<Symbol>| step(big, seq![s0], mid) && derives(big, mid, w, (n - 1) as nat);
        let p = step_single(big, s0, mid);
        if p != k { let q = if p < k { p } else { p - 1 }; assert(big.remove(k)[q] == big[p]); assert(false); }
        let x = big[k].rhs()[0];
        assert(mid =~= seq![x]);
        assert(no_nt(mid, s1));
        derives_back(small, st, big, s1, k, mid, w, (n - 1) as nat);
        assert(in_lang(small, st, w));
    }
    if in_lang(small, st, w) {
        let (s0, n) = choose|s0: Symbol, n: nat| nt_occurs(s0, st) && derives(small, seq![s0], w, n);
        if n == 0 { assert(seq![s0][0] == w[0]); assert(false); }
        let mid = choose|mid: Seq<Symbol>| step(small, seq![s0], mid) && derives(small, mid, w, (n - 1) as nat);
        let p = step_single(small, s0, mid);
        let x = big[k].rhs()[0];
        // the same production applies to the representation x of S that the new start production names
        assert(step_at(small, seq![x], mid, p, 0)) by { assert(seq![x].take(0) + small[p].rhs() + seq![x].skip(1) =~= small[p].rhs()); }
        assert(step(small, seq![x], mid));
        assert(derives(small, seq![x], w, n));
        derives_mono(small, big, k, seq![x], w, n);
        assert(step_at(big, seq![s1_sym], seq![x], k, 0)) by { assert(seq![s1_sym].take(0) + big[k].rhs() + seq![s1_sym].skip(1) =~= seq![x]); }
        assert(step(big, seq![s1_sym], seq![x]));
        assert(((n + 1) - 1) as nat == n);
        assert(derives(big, seq![s1_sym], w, n + 1));
        assert(in_lang(big, s1, w));
    }
}
