// ---------------- specification of unit c01_parse_into ----------------
/// the accept condition of the predictive parser: nothing is pending any more (or only the end-of-input terminal)
pub open spec fn accepted(s: Seq<ParseType>) -> bool { s.len() == 0 || (s.len() == 1 && s[0] == ParseType::T(0)) }
pub open spec fn sym_ok(e: ParseType, np: int, nn: int, nt: int) -> bool {
    match e { ParseType::N(n) => n < nn, ParseType::T(t) => t < nt, ParseType::E(p) => p < np }
}
pub open spec fn stack_ok(s: Seq<ParseType>, np: int, nn: int, nt: int) -> bool { forall|i: int| 0 <= i < s.len() ==> sym_ok(#[trigger] s[i], np, nn, nt) }
pub open spec fn counts(e: ParseType, prods: Seq<Production>) -> int {
    match e { ParseType::E(p) => if p < prods.len() && !prods[p as int].is_push_production { 1 } else { 0 }, _ => 0 }
}
/// number of open (counted) productions on the parser stack: end-of-production markers of non-push productions
pub open spec fn depth_of(s: Seq<ParseType>, prods: Seq<Production>) -> int decreases s.len() {
    if s.len() == 0 { 0 } else { depth_of(s.drop_last(), prods) + counts(s.last(), prods) }
}
pub open spec fn is_marker(e: ParseType) -> bool { e is E }
/// well-formed generated tables: every production's left-hand side and symbols are in range, right-hand sides hold no markers
pub open spec fn tables_ok(prods: Seq<Production>, nn: int, nt: int) -> bool {
    forall|p: int| 0 <= p < prods.len() ==> (#[trigger] prods[p]).lhs < nn
        && stack_ok(prods[p].production@, prods.len() as int, nn, nt)
        && forall|j: int| 0 <= j < prods[p].production@.len() ==> !is_marker(#[trigger] prods[p].production@[j])
}
pub proof fn depth_bound(s: Seq<ParseType>, prods: Seq<Production>)
    ensures 0 <= depth_of(s, prods) <= s.len()
    decreases s.len()
{
    if s.len() > 0 { depth_bound(s.drop_last(), prods); }
}
pub proof fn depth_push(s: Seq<ParseType>, e: ParseType, prods: Seq<Production>)
    ensures depth_of(s.push(e), prods) == depth_of(s, prods) + counts(e, prods)
{
    assert(s.push(e).drop_last() =~= s);
}
pub proof fn depth_append_plain(s: Seq<ParseType>, t: Seq<ParseType>, prods: Seq<Production>)
    requires forall|j: int| 0 <= j < t.len() ==> !is_marker(#[trigger] t[j])
    ensures depth_of(s + t, prods) == depth_of(s, prods)
    decreases t.len()
{
    if t.len() == 0 { assert(s + t =~= s); } else {
        depth_append_plain(s, t.drop_last(), prods);
        assert((s + t).drop_last() =~= s + t.drop_last());
        assert((s + t).last() == t.last());
    }
}
pub proof fn depth_pop(s: Seq<ParseType>, prods: Seq<Production>)
    requires s.len() > 0
    ensures depth_of(s.drop_last(), prods) == depth_of(s, prods) - counts(s.last(), prods)
{ }
