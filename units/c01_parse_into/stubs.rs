// ---------------- trusted border of unit c01_parse_into ----------------
/// the token, reduced to the field the parse loop reads
pub struct Token<'t> { pub token_type: TerminalIndex, pub rest: TokenRest<'t> }
#[verifier::external_body] pub struct TokenRest<'t> { _x: &'t u8 }
impl<'t> Clone for Token<'t> {
    #[verifier::external_body]
    fn clone(&self) -> (r: Self) ensures r == *self { unimplemented!() }
}
#[verifier::external_body] pub struct ParolError { _x: u8 }
#[verifier::external_body] pub struct LexerError { _x: u8 }
#[verifier::external_body] pub struct LookaheadDFA { _x: u8 }
#[verifier::external_body] pub struct FileSource { _x: u8 }
#[verifier::external_body] pub struct Location { _x: u8 }
/// the variants the parse loop constructs (the real ParserError has more)
pub enum ParserError {
    RecoveryFailed,
    SyntaxErrors { entries: Vec<SyntaxError> },
    UnprocessedInput { input: Box<FileSource>, last_token: Box<Location> },
}
impl From<ParserError> for ParolError {
    #[verifier::external_body]
    fn from(e: ParserError) -> (r: ParolError) { unimplemented!() }
}
impl From<LexerError> for ParolError {
    #[verifier::external_body]
    fn from(e: LexerError) -> (r: ParolError) { unimplemented!() }
}
impl<'t> From<Token<'t>> for Location {
    #[verifier::external_body]
    fn from(t: Token<'t>) -> (r: Location) { unimplemented!() }
}
impl<'a, 't> From<&'a Token<'t>> for Location {
    #[verifier::external_body]
    fn from(t: &'a Token<'t>) -> (r: Location) { unimplemented!() }
}
/// parts of a syntax error message (contents are not the subject of any property here)
/// the part of UnexpectedToken that handle_prediction_error reads (the real struct also holds two Strings)
pub struct UnexpectedToken { pub token: Location, pub rest: UnexpectedRest }
#[verifier::external_body] pub struct UnexpectedRest { _x: u8 }
impl Clone for Location {
    #[verifier::external_body]
    fn clone(&self) -> (r: Self) { unimplemented!() }
}
/// std's Option::map_or (not specified by the installed vstd): the default for None, else the closure's result
pub assume_specification<T, U, F: FnOnce(T) -> U>[ Option::<T>::map_or ](o: Option<T>, default: U, f: F) -> (r: U)
    requires o is Some ==> f.requires((o->Some_0,)),
    ensures o is None ==> r == default, o is Some ==> f.ensures((o->Some_0,), r);
impl Default for Location {
    #[verifier::external_body]
    fn default() -> (r: Self) { unimplemented!() }
}
impl LookaheadDFA {
    /// builds the parts of a prediction error message from the buffered lookahead (iterator code; its body never returns Err)
    #[verifier::external_body]
    pub fn build_error<'t, F>(&self, terminal_names: &'static [&'static str], token_stream: &TokenStream<'t, F>) -> (r: std::result::Result<(String, Vec<UnexpectedToken>, TokenVec), LexerError>)
        ensures r is Ok
    { unimplemented!() }
}
impl UnexpectedToken {
    #[verifier::external_body]
    pub fn new(name: String, token_type: String, token: &Token<'_>) -> (r: Self) { unimplemented!() }
}
#[verifier::external_body] pub struct TokenVec { _x: u8 }
impl TokenVec {
    #[verifier::external_body]
    pub fn default() -> (r: Self) { unimplemented!() }
    #[verifier::external_body]
    pub fn push(&mut self, token: String) { unimplemented!() }
}
pub type Result<T> = std::result::Result<T, ParolError>;
// R5: format!(..) -> fmt_opaque(): the message text is not specified
#[verifier::external_body]
pub fn fmt_opaque() -> String { unimplemented!() }
/// R14: the meaning of `v.drain(..).collect()`
#[verifier::external_body]
pub fn vec_drain_all<T>(v: &mut Vec<T>) -> (r: Vec<T>)
    ensures r@ == old(v)@, final(v)@.len() == 0
{ unimplemented!() }
/// Rust allocation limit: a Vec never holds more than isize::MAX elements (axiom, see unit.json)
#[verifier::external_body]
pub proof fn vec_len_bound<T>(v: &Vec<T>)
    ensures v@.len() <= 0x7FFF_FFFF_FFFF_FFFF
{ }
/// the parse tree stack: push is proved in unit c14_parse_tree_stack; here its effect is irrelevant (opaque)
#[verifier::external_body] #[verifier::reject_recursive_types(T)] pub struct ParseTreeStack<T> { _x: Vec<T> }
impl<T> ParseTreeStack<T> {
    #[verifier::external_body]
    pub fn new() -> (r: Self) { unimplemented!() }
    #[verifier::external_body]
    pub fn push(&mut self, node: T) { unimplemented!() }
}
/// the token stream, opaque: the methods the parse loop calls (proved with their full contracts in unit ts_stream)
#[verifier::external_body] #[verifier::reject_recursive_types(F)] pub struct TokenStream<'t, F> { _x: &'t u8, _f: Option<F> }
impl<'t, F> TokenStream<'t, F> {
    pub uninterp spec fn consumed_all(&self) -> bool;
    /// an upper bound of the token types this stream delivers (assumed: the scanner and the recovery only produce types that
    /// index TERMINAL_NAMES); no operation changes it
    pub uninterp spec fn type_bound(&self) -> int;
    #[verifier::external_body]
    pub fn lookahead(&mut self, n: usize) -> (r: std::result::Result<Token<'t>, LexerError>)
        ensures r is Ok ==> r->Ok_0.token_type < final(self).type_bound(), final(self).type_bound() == old(self).type_bound()
    { unimplemented!() }
    /// ghost flag: the skipped tokens in front of the next significant token have just been handed out (set by
    /// handle_additional_tokens, not preserved by any other stream operation)
    pub uninterp spec fn skips_handed_out(&self) -> bool;
    #[verifier::external_body]
    pub fn consume(&mut self) -> (r: std::result::Result<Token<'t>, LexerError>)
        requires old(self).skips_handed_out(), //# a token is only consumed right after the skipped tokens in front of it were handed out (to the parse tree and to on_comment)
        ensures final(self).type_bound() == old(self).type_bound()
    { unimplemented!() }
    #[verifier::external_body]
    pub fn enter_recovery_mode(&mut self)
        ensures final(self).type_bound() == old(self).type_bound()
    { unimplemented!() }
    #[verifier::external_body]
    pub fn ensure_buffer(&mut self) -> (r: std::result::Result<usize, LexerError>)
        ensures final(self).type_bound() == old(self).type_bound()
    { unimplemented!() }
    #[verifier::external_body]
    pub fn token_types(&self) -> (r: Vec<TerminalIndex>) { unimplemented!() }
    #[verifier::external_body]
    pub fn all_input_consumed(&self) -> (r: bool) ensures r == self.consumed_all() { unimplemented!() }
    #[verifier::external_body]
    pub fn last_token(&self) -> (r: std::result::Result<Token<'t>, LexerError>) { unimplemented!() }
}
impl FileSource {
    #[verifier::external_body]
    pub fn from_stream<'t, F>(s: &TokenStream<'t, F>) -> (r: FileSource) { unimplemented!() }
}
/// the user-action interface (calls are not followed here; their order is the subject of unit c02_process_item_stack)
pub trait UserActionsTrait<'t> {
    fn call_semantic_action_for_production_number(&mut self, prod_num: ProductionIndex, children: &[ParseTreeType<'t>]) -> (r: Result<()>);
    fn on_comment(&mut self, token: Token<'t>);
}
/// the tree builder interface (error type opaque)
pub trait TreeConstruct<'t> {
    type Error;
    type Tree;
    fn open_non_terminal(&mut self, name: &'static str, size_hint: Option<usize>) -> std::result::Result<(), Self::Error>;
    fn close_non_terminal(&mut self) -> std::result::Result<(), Self::Error>;
    fn add_token(&mut self, token: &Token<'t>) -> std::result::Result<(), Self::Error>;
}
