// Bounded native check `rt_border`: the REAL parol generates an LL(k) and a LALR(1) parser for one toy grammar
// (build.rs), both are linked against the REAL parol_runtime, and every input of a stated finite space is
// parsed.  An independent reference tokenizer (written from the grammar's lexical declarations) is the oracle.
// Clauses are tagged with the property they belong to (C14 lossless tokens/trees, C17 skipped tokens).
// This is a bounded stand-in for code outside the verifiers' reach (scanner adapter, token stream, both parse
// loops); it is labelled bounded and never counted as proved.
#![allow(warnings)]
#[path = "gen/ll_grammar_trait.rs"] mod ll_grammar_trait;
#[path = "gen/ll_parser.rs"] mod ll_parser;
#[path = "gen/lr_grammar_trait.rs"] mod lr_grammar_trait;
#[path = "gen/lr_parser.rs"] mod lr_parser;
#[path = "gen/ll_t_grammar_trait.rs"] mod ll_t_grammar_trait;
#[path = "gen/ll_t_parser.rs"] mod ll_t_parser;
#[path = "gen/lr_t_grammar_trait.rs"] mod lr_t_grammar_trait;
#[path = "gen/lr_t_parser.rs"] mod lr_t_parser;
#[path = "gen/ll_n_grammar_trait.rs"] mod ll_n_grammar_trait;
#[path = "gen/ll_n_parser.rs"] mod ll_n_parser;
#[path = "gen/e_ll_grammar_trait.rs"] mod e_ll_grammar_trait;
#[path = "gen/e_ll_parser.rs"] mod e_ll_parser;
#[path = "gen/e_lr_grammar_trait.rs"] mod e_lr_grammar_trait;
#[path = "gen/e_lr_parser.rs"] mod e_lr_parser;
#[path = "gen/e_ll_t_grammar_trait.rs"] mod e_ll_t_grammar_trait;
#[path = "gen/e_ll_t_parser.rs"] mod e_ll_t_parser;
#[path = "gen/e_lr_t_grammar_trait.rs"] mod e_lr_t_grammar_trait;
#[path = "gen/e_lr_t_parser.rs"] mod e_lr_t_parser;
#[path = "gen/e_ll_d_grammar_trait.rs"] mod e_ll_d_grammar_trait;
#[path = "gen/e_ll_d_parser.rs"] mod e_ll_d_parser;
#[path = "gen/e_lr_d_grammar_trait.rs"] mod e_lr_d_grammar_trait;
#[path = "gen/e_lr_d_parser.rs"] mod e_lr_d_parser;
#[path = "gen/e_ll_s_grammar_trait.rs"] mod e_ll_s_grammar_trait;
#[path = "gen/e_ll_s_parser.rs"] mod e_ll_s_parser;
#[path = "gen/e_lr_s_grammar_trait.rs"] mod e_lr_s_grammar_trait;
#[path = "gen/e_lr_s_parser.rs"] mod e_lr_s_parser;
#[path = "gen/e_ll_ts_grammar_trait.rs"] mod e_ll_ts_grammar_trait;
#[path = "gen/e_ll_ts_parser.rs"] mod e_ll_ts_parser;
#[path = "gen/e_lr_ts_grammar_trait.rs"] mod e_lr_ts_grammar_trait;
#[path = "gen/e_lr_ts_parser.rs"] mod e_lr_ts_parser;
#[path = "gen/e_ll_z_grammar_trait.rs"] mod e_ll_z_grammar_trait;
#[path = "gen/e_ll_z_parser.rs"] mod e_ll_z_parser;
#[path = "gen/e_lr_z_grammar_trait.rs"] mod e_lr_z_grammar_trait;
#[path = "gen/e_lr_z_parser.rs"] mod e_lr_z_parser;
#[path = "gen/n_ll_grammar_trait.rs"] mod n_ll_grammar_trait;
#[path = "gen/n_ll_parser.rs"] mod n_ll_parser;
#[path = "gen/ll_tn_grammar_trait.rs"] mod ll_tn_grammar_trait;
#[path = "gen/ll_tn_parser.rs"] mod ll_tn_parser;
#[path = "gen/k_ll_grammar_trait.rs"] mod k_ll_grammar_trait;
#[path = "gen/k_ll_parser.rs"] mod k_ll_parser;
#[path = "gen/u_ll_grammar_trait.rs"] mod u_ll_grammar_trait;
#[path = "gen/u_ll_parser.rs"] mod u_ll_parser;
#[path = "gen/c_lr_grammar_trait.rs"] mod c_lr_grammar_trait;
#[path = "gen/c_lr_parser.rs"] mod c_lr_parser;

use parol_runtime::{ParolError, Token, parser::parse_tree_type::TreeConstruct};

#[derive(Debug, Clone, PartialEq)]
pub struct Ev { kind: char, start: usize, end: usize }

macro_rules! user_grammar {
    ($m:ident, $ty:ident, $tr:ident, $trm:ident) => {
        mod $m {
            use super::Ev;
            use crate::$trm::{A, B, Tog, Semi, Q, R, S, T, U, Bang, ASemi, Quad, Item, Start, $tr};
            use parol_runtime::{Result, Token};
            #[derive(Default)]
            pub struct $ty<'t> { pub events: Vec<Ev>, _p: std::marker::PhantomData<&'t ()> }
            impl<'t> $tr<'t> for $ty<'t> {
                fn a(&mut self, x: &A<'t>) -> Result<()> { self.events.push(Ev { kind: 'a', start: x.a.location.start as usize, end: x.a.location.end as usize }); Ok(()) }
                fn b(&mut self, x: &B<'t>) -> Result<()> { self.events.push(Ev { kind: 'b', start: x.b.location.start as usize, end: x.b.location.end as usize }); Ok(()) }
                fn tog(&mut self, x: &Tog<'t>) -> Result<()> { self.events.push(Ev { kind: '#', start: x.tog.location.start as usize, end: x.tog.location.end as usize }); Ok(()) }
                fn semi(&mut self, x: &Semi<'t>) -> Result<()> { self.events.push(Ev { kind: ';', start: x.semi.location.start as usize, end: x.semi.location.end as usize }); Ok(()) }
                fn a_semi(&mut self, _x: &ASemi<'t>) -> Result<()> { self.events.push(Ev { kind: 'P', start: 0, end: 0 }); Ok(()) }
                fn quad(&mut self, _x: &Quad<'t>) -> Result<()> { self.events.push(Ev { kind: 'D', start: 0, end: 0 }); Ok(()) }
                fn item(&mut self, _x: &Item<'t>) -> Result<()> { self.events.push(Ev { kind: 'I', start: 0, end: 0 }); Ok(()) }
                fn start(&mut self, _x: &Start<'t>) -> Result<()> { self.events.push(Ev { kind: 'Z', start: 0, end: 0 }); Ok(()) }
                fn bang(&mut self, x: &Bang<'t>) -> Result<()> { self.events.push(Ev { kind: '!', start: x.bang.location.start as usize, end: x.bang.location.end as usize }); Ok(()) }
                fn q(&mut self, x: &Q<'t>) -> Result<()> { self.events.push(Ev { kind: 'q', start: x.q.location.start as usize, end: x.q.location.end as usize }); Ok(()) }
                fn r(&mut self, x: &R<'t>) -> Result<()> { self.events.push(Ev { kind: 'r', start: x.r.location.start as usize, end: x.r.location.end as usize }); Ok(()) }
                fn s(&mut self, x: &S<'t>) -> Result<()> { self.events.push(Ev { kind: 's', start: x.s.location.start as usize, end: x.s.location.end as usize }); Ok(()) }
                fn t(&mut self, x: &T<'t>) -> Result<()> { self.events.push(Ev { kind: 't', start: x.t.location.start as usize, end: x.t.location.end as usize }); Ok(()) }
                fn u(&mut self, x: &U<'t>) -> Result<()> { self.events.push(Ev { kind: 'u', start: x.u.location.start as usize, end: x.u.location.end as usize }); Ok(()) }
                fn on_comment(&mut self, t: Token<'t>) { self.events.push(Ev { kind: 'c', start: t.location.start as usize, end: t.location.end as usize }); }
            }
        }
    };
}
user_grammar!(ll_grammar, LlGrammar, LlGrammarTrait, ll_grammar_trait);
user_grammar!(lr_grammar, LrGrammar, LrGrammarTrait, lr_grammar_trait);
user_grammar!(ll_t_grammar, LlTGrammar, LlTGrammarTrait, ll_t_grammar_trait);
user_grammar!(lr_t_grammar, LrTGrammar, LrTGrammarTrait, lr_t_grammar_trait);
user_grammar!(ll_n_grammar, LlNGrammar, LlNGrammarTrait, ll_n_grammar_trait);
user_grammar!(ll_tn_grammar, LlTnGrammar, LlTnGrammarTrait, ll_tn_grammar_trait);

// second toy grammar (nested expressions): E: T { Plus T }; T: Num | Open E Close;
macro_rules! user_grammar2 {
    ($m:ident, $ty:ident, $tr:ident, $trm:ident) => {
        mod $m {
            use super::Ev;
            use crate::$trm::{Num, Plus, Open, Close, E, T, $tr};
            use parol_runtime::{Result, Token};
            #[derive(Default)]
            pub struct $ty<'t> { pub events: Vec<Ev>, _p: std::marker::PhantomData<&'t ()> }
            impl<'t> $tr<'t> for $ty<'t> {
                fn e(&mut self, _x: &E<'t>) -> Result<()> { self.events.push(Ev { kind: 'E', start: 0, end: 0 }); Ok(()) }
                fn t(&mut self, _x: &T<'t>) -> Result<()> { self.events.push(Ev { kind: 'T', start: 0, end: 0 }); Ok(()) }
                fn num(&mut self, x: &Num<'t>) -> Result<()> { self.events.push(Ev { kind: 'n', start: x.num.location.start as usize, end: x.num.location.end as usize }); Ok(()) }
                fn plus(&mut self, x: &Plus<'t>) -> Result<()> { self.events.push(Ev { kind: '+', start: x.plus.location.start as usize, end: x.plus.location.end as usize }); Ok(()) }
                fn open(&mut self, x: &Open<'t>) -> Result<()> { self.events.push(Ev { kind: '(', start: x.open.location.start as usize, end: x.open.location.end as usize }); Ok(()) }
                fn close(&mut self, x: &Close<'t>) -> Result<()> { self.events.push(Ev { kind: ')', start: x.close.location.start as usize, end: x.close.location.end as usize }); Ok(()) }
                fn on_comment(&mut self, t: Token<'t>) { self.events.push(Ev { kind: 'c', start: t.location.start as usize, end: t.location.end as usize }); }
            }
        }
    };
}
user_grammar2!(e_ll_grammar, ELlGrammar, ELlGrammarTrait, e_ll_grammar_trait);
user_grammar2!(e_lr_grammar, ELrGrammar, ELrGrammarTrait, e_lr_grammar_trait);
user_grammar2!(e_ll_t_grammar, ELlTGrammar, ELlTGrammarTrait, e_ll_t_grammar_trait);
user_grammar2!(e_lr_t_grammar, ELrTGrammar, ELrTGrammarTrait, e_lr_t_grammar_trait);
user_grammar2!(e_ll_d_grammar, ELlDGrammar, ELlDGrammarTrait, e_ll_d_grammar_trait);
user_grammar2!(e_lr_d_grammar, ELrDGrammar, ELrDGrammarTrait, e_lr_d_grammar_trait);
user_grammar2!(e_ll_s_grammar, ELlSGrammar, ELlSGrammarTrait, e_ll_s_grammar_trait);
user_grammar2!(e_lr_s_grammar, ELrSGrammar, ELrSGrammarTrait, e_lr_s_grammar_trait);
user_grammar2!(e_ll_ts_grammar, ELlTsGrammar, ELlTsGrammarTrait, e_ll_ts_grammar_trait);
user_grammar2!(e_lr_ts_grammar, ELrTsGrammar, ELrTsGrammarTrait, e_lr_ts_grammar_trait);
user_grammar2!(e_ll_z_grammar, ELlZGrammar, ELlZGrammarTrait, e_ll_z_grammar_trait);
user_grammar2!(e_lr_z_grammar, ELrZGrammar, ELrZGrammarTrait, e_lr_z_grammar_trait);

#[derive(Debug, Clone, PartialEq)]
struct Leaf { ty: u16, start: usize, end: usize, text: String, line: u32, col: u32, eline: u32, ecol: u32 }
#[derive(Default)]
struct Collector { leaves: Vec<Leaf>, depth: i64, min_depth: i64, shape: Vec<String> }
impl<'t> TreeConstruct<'t> for Collector {
    type Error = ParolError;
    type Tree = ();
    fn open_non_terminal(&mut self, n: &'static str, _s: Option<usize>) -> Result<(), ParolError> { self.depth += 1; self.shape.push(format!("<{}", n)); Ok(()) }
    fn close_non_terminal(&mut self) -> Result<(), ParolError> { self.depth -= 1; self.min_depth = self.min_depth.min(self.depth); self.shape.push(">".to_string()); Ok(()) }
    fn add_token(&mut self, t: &Token<'t>) -> Result<(), ParolError> {
        self.leaves.push(Leaf { ty: t.token_type, start: t.location.start as usize, end: t.location.end as usize, text: t.text().to_string(),
                                line: t.location.start_line, col: t.location.start_column, eline: t.location.end_line, ecol: t.location.end_column });
        // structure: significant leaves only (where trivia is attached is not part of the derivation)
        if !((t.token_type > 0 && t.token_type < 5) || t.token_type == u16::MAX - 1 || t.is_effectively_skip_token()) { self.shape.push(format!("{}", t.location.start)); }
        Ok(())
    }
    fn build(self) -> Result<(), ParolError> { Ok(()) }
}

// ---------------- oracle: reference tokenizer of the toy grammar ----------------
#[derive(Debug, Clone, PartialEq)]
struct RTok { ty: u16, start: usize, end: usize, skip: bool }
const NL: u16 = 1; const WS: u16 = 2; const LC: u16 = 3; const BC: u16 = 4; const A: u16 = 5; const B: u16 = 6; const TOG: u16 = 7; const SEMI: u16 = 8; const TQ: u16 = 9; const TR: u16 = 10; const TS: u16 = 11; const TT: u16 = 12; const TU: u16 = 13; const BANG: u16 = 14; const ERR: u16 = 15;
const INVALID: u16 = u16::MAX - 1;
fn reference_tokens(s: &str) -> Vec<RTok> {
    let b = s.as_bytes();
    let mut out: Vec<RTok> = vec![];
    let mut alt = false;
    let mut i = 0;
    let mut gap_start: Option<usize> = None;
    let mut push = |out: &mut Vec<RTok>, gap_start: &mut Option<usize>, t: RTok| {
        if let Some(g) = gap_start.take() { out.push(RTok { ty: INVALID, start: g, end: t.start, skip: true }); }
        out.push(t);
    };
    while i < b.len() {
        let c = b[i];
        let rest = &s[i..];
        if c == b'\n' { push(&mut out, &mut gap_start, RTok { ty: NL, start: i, end: i + 1, skip: true }); i += 1; continue; }
        if c == b' ' || c == b'\t' {
            let mut j = i; while j < b.len() && (b[j] == b' ' || b[j] == b'\t') { j += 1; }
            push(&mut out, &mut gap_start, RTok { ty: WS, start: i, end: j, skip: true }); i = j; continue;
        }
        if c == b'a' { push(&mut out, &mut gap_start, RTok { ty: A, start: i, end: i + 1, skip: false }); i += 1; continue; }
        if c == b'b' { push(&mut out, &mut gap_start, RTok { ty: B, start: i, end: i + 1, skip: alt }); i += 1; continue; }
        // the toggle is significant when read in INITIAL and skipped when read in ALT (ALT's skip list names it); it switches the state either way
        if c == b'#' { push(&mut out, &mut gap_start, RTok { ty: TOG, start: i, end: i + 1, skip: alt }); i += 1; alt = !alt; continue; }
        if c == b';' { push(&mut out, &mut gap_start, RTok { ty: SEMI, start: i, end: i + 1, skip: false }); i += 1; continue; }
        if let Some(k) = b"qrstu".iter().position(|x| *x == c) { push(&mut out, &mut gap_start, RTok { ty: TQ + k as u16, start: i, end: i + 1, skip: false }); i += 1; continue; }
        if !alt {
            if rest.starts_with("//") || rest.starts_with("--") {
                let mut j = i; while j < b.len() && b[j] != b'\n' { j += 1; } if j < b.len() { j += 1; }
                push(&mut out, &mut gap_start, RTok { ty: LC, start: i, end: j, skip: true }); i = j; continue;
            }
            if rest.starts_with("/*") { if let Some(p) = rest[2..].find("*/") {
                let j = i + 2 + p + 2;
                push(&mut out, &mut gap_start, RTok { ty: BC, start: i, end: j, skip: true }); i = j; continue; } }
            // any other character: the terminal `/./ ?= /!/` when the next character is `!`, else the error token (one char)
            let n = rest.chars().next().unwrap().len_utf8();
            if c != b'\r' && rest[n..].starts_with('!') { push(&mut out, &mut gap_start, RTok { ty: BANG, start: i, end: i + n, skip: false }); i += n; continue; }
            push(&mut out, &mut gap_start, RTok { ty: ERR, start: i, end: i + n, skip: false }); i += n; continue;
        }
        // ALT mode: unmatched text is tolerated and becomes one gap token up to the next match
        if gap_start.is_none() { gap_start = Some(i); }
        i += rest.chars().next().unwrap().len_utf8();
    }
    if let Some(g) = gap_start.take() { out.push(RTok { ty: INVALID, start: g, end: b.len(), skip: true }); }
    out
}
fn line_col(s: &str, off: usize) -> (u32, u32) {
    let before = &s[..off];
    let line = 1 + before.matches('\n').count() as u32;
    let col = 1 + before.rsplit('\n').next().unwrap().chars().count() as u32;
    (line, col)
}

struct Run { ok: bool, leaves: Vec<Leaf>, events: Vec<Ev>, panicked: bool, depth_err: bool, shape: Vec<String> }
/// variant: 0 = LL(k), 1 = LALR(1), 2 = LL(k) with trim_parse_tree, 3 = LALR(1) with trim_parse_tree, 4 = LL(k) with recovery disabled, 5 = LL(k) trimmed with recovery disabled
const VARIANTS: [&str; 6] = ["LL(k)", "LALR(1)", "LL(k) trimmed", "LALR(1) trimmed", "LL(k) recovery disabled", "LL(k) trimmed, recovery disabled"];
fn run(v: usize, input: &str) -> Run {
    let inp = input.to_string();
    let r = std::panic::catch_unwind(move || {
        let mut col = Collector::default();
        match v {
            1 => { let mut g = lr_grammar::LrGrammar::default(); let r = lr_parser::parse_into(&inp, &mut col, "x", &mut g); (r.is_ok(), col.leaves, g.events, col.shape) }
            2 => { let mut g = ll_t_grammar::LlTGrammar::default(); let r = ll_t_parser::parse_into(&inp, &mut col, "x", &mut g); (r.is_ok(), col.leaves, g.events, col.shape) }
            3 => { let mut g = lr_t_grammar::LrTGrammar::default(); let r = lr_t_parser::parse_into(&inp, &mut col, "x", &mut g); (r.is_ok(), col.leaves, g.events, col.shape) }
            4 => { let mut g = ll_n_grammar::LlNGrammar::default(); let r = ll_n_parser::parse_into(&inp, &mut col, "x", &mut g); (r.is_ok(), col.leaves, g.events, col.shape) }
            5 => { let mut g = ll_tn_grammar::LlTnGrammar::default(); let r = ll_tn_parser::parse_into(&inp, &mut col, "x", &mut g); (r.is_ok(), col.leaves, g.events, col.shape) }
            _ => { let mut g = ll_grammar::LlGrammar::default(); let r = ll_parser::parse_into(&inp, &mut col, "x", &mut g); (r.is_ok(), col.leaves, g.events, col.shape) }
        }
    });
    match r { Ok((ok, leaves, events, shape)) => Run { ok, leaves, events, panicked: false, depth_err: false, shape }, Err(_) => Run { ok: false, leaves: vec![], events: vec![], panicked: true, depth_err: false, shape: vec![] } }
}

const CLAUSES: [(&str, &str); 17] = [
    ("C01 C02 C03 C08 C13 C14 C16 C17 C19 C20", "parse does not panic"),
    ("C01 C03 C08 C13 C14 C16 C17 C20", "acceptance: success iff the input is a sentence of the toy grammar (independent reference recognizer; skipped tokens do not matter)"),
    ("C03 C13 C14 C16", "tree leaves are contiguous, in order, start at 0 and end at the input length"),
    ("C13 C14 C16", "leaf texts equal the input slices of their byte ranges (texts concatenate to the input)"),
    ("C13 C14 C16", "leaf token types and ranges equal the reference tokenization (significant, skipped, comments, unmatched gaps)"),
    ("C14", "line/column positions (start and end) of scanner-produced leaves match the text"),
    ("C14", "line/column positions (start and end) of unmatched-gap leaves match the text"),
    ("C08 C13 C17 C20", "semantic actions see exactly the significant tokens, in order (skipped and state-skipped tokens never influence the derivation)"),
    ("C17", "every comment is passed to on_comment exactly once, in input order"),
    ("C19", "parse returns: no single parse runs longer than the watchdog limit (30 s)"),
    ("C19 C20", "depth limit: a limit that is not reached changes nothing; an exceeded limit yields the MaxParsingDepthExceeded error value (or the unlimited outcome), never a panic or another result"),
    ("C02 C03", "every production application triggers exactly one semantic action, in post-order of the derivation tree (children before their production, left to right)"),
    ("C02", "the LL(k) parse tree is the derivation tree of the transformed grammar: every production application is one inner node whose children are that production's right-hand side in order (empty productions included)"),
    ("C16", "with automatic newline handling switched off and no newline terminal, a line break is unmatched input: in a state without %allow_unmatched the parse must fail"),
    ("C01 C13", "fourth grammar (lookaheads written in another literal kind than their terminal; two groups under one left-hand side): success iff the reference tokenization has no error token and is a sequence of pairs (Int | Dot)(If | Id); the tree leaves equal the reference tokenization (longest match among the terminals whose lookahead condition holds, first declared wins ties)"),
    ("C16", "fifth grammar (%allow_unmatched in the global section only, a second scanner state without it): the parse fails iff a character is unmatched in the state WITHOUT allow-unmatched; on success the tree leaves tile the input (unmatched text of the allowing state is kept)"),
    ("C03", "sixth grammar (LALR(1), clipped terminals, left recursion): success iff the input is `[ x {, x} ]`; the tree has exactly one top node, List, and its leaves tile the input; every reduction is reported once in the order of a rightmost derivation in reverse"),
];
/// independent recognizer of Start: { Item }; Item: a | b | # | a ; | q r s t | q u
fn is_item_list(t: &[u16]) -> bool {
    let mut p = 0;
    while p < t.len() {
        p = match t[p] {
            A => if p + 1 < t.len() && t[p + 1] == SEMI { p + 2 } else { p + 1 },
            B | TOG | BANG => p + 1,
            TQ => if t[p + 1..].starts_with(&[TR, TS, TT]) { p + 4 } else if t[p + 1..].starts_with(&[TU]) { p + 2 } else { return false },
            _ => return false,
        };
    }
    true
}
/// index of the first violated clause
fn check(v: usize, input: &str) -> Option<usize> {
    let want = reference_tokens(input);
    let r = run(v, input);
    if r.panicked { return Some(0); }
    // sentence of the toy grammar: no error token, and every significant `;` directly follows a significant `a`
    let sigs: Vec<u16> = want.iter().filter(|t| !t.skip).map(|t| t.ty).collect();
    let expect_ok = !want.iter().any(|t| t.ty == ERR) && is_item_list(&sigs);
    if r.ok != expect_ok { return Some(1); }
    if !r.ok { return None; }
    let trimmed = v == 2 || v == 3 || v == 5;
    if trimmed {
        // no tree is built: only the action and comment clauses apply (and nothing may reach the tree builder)
        if !r.leaves.is_empty() { return Some(4); }
        return check_events(&r, &want);
    }
    let mut pos = 0;
    for l in &r.leaves { if l.start != pos || l.end < l.start { return Some(2); } pos = l.end; }
    if pos != input.len() { return Some(2); }
    for l in &r.leaves { if input.get(l.start..l.end) != Some(l.text.as_str()) { return Some(3); } }
    if r.leaves.len() != want.len() { return Some(4); }
    for (l, w) in r.leaves.iter().zip(&want) { if l.ty != w.ty || l.start != w.start || l.end != w.end { return Some(4); } }
    for l in &r.leaves { if l.ty != INVALID && ((l.line, l.col) != line_col(input, l.start) || (l.eline, l.ecol) != line_col(input, l.end)) { return Some(5); } }
    let gap_bad = r.leaves.iter().any(|l| l.ty == INVALID && ((l.line, l.col) != line_col(input, l.start) || (l.eline, l.ecol) != line_col(input, l.end)));
    if let Some(c) = check_events(&r, &want) { return Some(c); }
    if gap_bad { return Some(6); }
    None
}
fn check_events(r: &Run, want: &[RTok]) -> Option<usize> {
    let acts: Vec<(char, usize)> = r.events.iter().filter(|e| e.kind != 'c' && !e.kind.is_ascii_uppercase()).map(|e| (e.kind, e.start)).collect();
    let want_acts: Vec<(char, usize)> = want.iter().filter(|t| !t.skip).map(|t| (match t.ty { A => 'a', B => 'b', SEMI => ';', TQ => 'q', TR => 'r', TS => 's', TT => 't', TU => 'u', BANG => '!', _ => '#' }, t.start)).collect();
    if acts != want_acts { return Some(7); }
    let cms: Vec<(usize, usize)> = r.events.iter().filter(|e| e.kind == 'c').map(|e| (e.start, e.end)).collect();
    let want_cms: Vec<(usize, usize)> = want.iter().filter(|t| t.ty == LC || t.ty == BC).map(|t| (t.start, t.end)).collect();
    if cms != want_cms { return Some(8); }
    // post-order of the derivation tree of Start: { Item }; each item's terminals, then its own production(s), finally Start
    let sig: Vec<u16> = want.iter().filter(|t| !t.skip).map(|t| t.ty).collect();
    let mut post: Vec<char> = vec![];
    let kind = |ty: u16| match ty { A => 'a', B => 'b', SEMI => ';', TQ => 'q', TR => 'r', TS => 's', TT => 't', TU => 'u', BANG => '!', _ => '#' };
    let mut p = 0;
    while p < sig.len() {
        let n = match sig[p] { A if p + 1 < sig.len() && sig[p + 1] == SEMI => 2, TQ if sig[p + 1..].starts_with(&[TR]) => 4, TQ => 2, _ => 1 };
        for k in 0..n { post.push(kind(sig[p + k])); }
        if sig[p] == A && n == 2 { post.push('P'); }
        if sig[p] == TQ { post.push('D'); }
        post.push('I');
        p += n;
    }
    post.push('Z');
    let got: Vec<char> = r.events.iter().filter(|e| e.kind != 'c').map(|e| e.kind).collect();
    if got != post { return Some(11); }
    None
}

// ================= third toy grammar: %auto_newline_off, no %allow_unmatched: Pair: 'a' 'b' =================
mod n_ll_grammar {
    use crate::n_ll_grammar_trait::NLlGrammarTrait;
    #[derive(Default)]
    pub struct NLlGrammar<'t> { _p: std::marker::PhantomData<&'t ()> }
    impl<'t> NLlGrammarTrait<'t> for NLlGrammar<'t> {}
}
/// a sentence of grammar 3: `a` and `b` separated by blanks/tabs only; every other character (a line break included: the
/// grammar switches automatic newline handling off and declares no newline terminal) is unmatched input, i.e. an error
fn g3_accepts(s: &str) -> bool {
    let sig: Vec<char> = s.chars().filter(|c| *c != ' ' && *c != '\t').collect();
    sig == ['a', 'b']
}
const PIECES3: [&str; 6] = ["a", "b", " ", "\n", "?", "\r"];
/// clause 13 only
fn check3(input: &str) -> Option<usize> {
    let inp = input.to_string();
    let r = std::panic::catch_unwind(move || {
        let mut col = Collector::default();
        let mut g = n_ll_grammar::NLlGrammar::default();
        n_ll_parser::parse_into(&inp, &mut col, "x", &mut g).is_ok()
    });
    match r { Err(_) => Some(0), Ok(ok) => if ok != g3_accepts(input) { Some(13) } else { None } }
}
mod k_ll_grammar {
    use crate::k_ll_grammar_trait::KLlGrammarTrait;
    #[derive(Default)]
    pub struct KLlGrammar<'t> { _p: std::marker::PhantomData<&'t ()> }
    impl<'t> KLlGrammarTrait<'t> for KLlGrammar<'t> {}
}
// ================= fourth toy grammar: L: { I }; I: (Int | Dot) (If | Id); Int: /[0-9]+/ ?! '.'; Dot: '.'; If: 'if' ?! /[a-z]/; Id: /[a-z]+/ =================
const K_INT: u16 = 5; const K_DOT: u16 = 6; const K_IF: u16 = 7; const K_ID: u16 = 8; const K_ERR: u16 = 9;
const PIECES4: [&str; 8] = ["1", ".", "if", "x", "i", " ", "?", "\n"];
/// reference tokenizer written from the documented rules: at every position the longest match among the terminals whose
/// lookahead condition holds at that length; on equal length the terminal declared first; the catch-all error token last
fn reference_tokens4(s: &str) -> Vec<RTok> {
    let b = s.as_bytes();
    let mut out: Vec<RTok> = vec![];
    let mut i = 0;
    while i < b.len() {
        let c = b[i];
        if c == b'\n' { out.push(RTok { ty: NL, start: i, end: i + 1, skip: true }); i += 1; continue; }
        if c == b' ' || c == b'\t' { let mut j = i; while j < b.len() && (b[j] == b' ' || b[j] == b'\t') { j += 1; } out.push(RTok { ty: WS, start: i, end: j, skip: true }); i = j; continue; }
        // candidates (type, length) in declaration order
        let mut cands: Vec<(u16, usize)> = vec![];
        let mut d = 0; while i + d < b.len() && b[i + d].is_ascii_digit() { d += 1; }
        if d > 0 {
            // Int of length l is admissible iff the char after it is not `.`; inside the run the next char is a digit
            let full_ok = !(i + d < b.len() && b[i + d] == b'.');
            if full_ok { cands.push((K_INT, d)); } else if d > 1 { cands.push((K_INT, d - 1)); }
        }
        if c == b'.' { cands.push((K_DOT, 1)); }
        if s[i..].starts_with("if") && !(i + 2 < b.len() && b[i + 2].is_ascii_lowercase()) { cands.push((K_IF, 2)); }
        let mut l = 0; while i + l < b.len() && b[i + l].is_ascii_lowercase() { l += 1; }
        if l > 0 { cands.push((K_ID, l)); }
        let clen = s[i..].chars().next().unwrap().len_utf8();
        cands.push((K_ERR, clen));
        let mut best = cands[0];
        for c in &cands[1..] { if c.1 > best.1 { best = *c; } }
        out.push(RTok { ty: best.0, start: i, end: i + best.1, skip: false });
        i += best.1;
    }
    out
}
/// clause 14 only (and "does not panic")
fn check4(input: &str) -> Option<usize> {
    let want = reference_tokens4(input);
    let inp = input.to_string();
    let r = std::panic::catch_unwind(move || {
        let mut col = Collector::default();
        let mut g = k_ll_grammar::KLlGrammar::default();
        let ok = k_ll_parser::parse_into(&inp, &mut col, "x", &mut g).is_ok();
        (ok, col.leaves)
    });
    let (ok, leaves) = match r { Err(_) => return Some(0), Ok(x) => x };
    let sig: Vec<u16> = want.iter().filter(|t| !t.skip).map(|t| t.ty).collect();
    let sentence = !sig.contains(&K_ERR) && sig.len() % 2 == 0
        && sig.chunks(2).all(|p| (p[0] == K_INT || p[0] == K_DOT) && (p[1] == K_IF || p[1] == K_ID));
    if ok != sentence { return Some(14); }
    if ok {
        if leaves.len() != want.len() { return Some(14); }
        for (l, w) in leaves.iter().zip(&want) { if l.ty != w.ty || l.start != w.start || l.end != w.end { return Some(14); } }
    }
    None
}
mod u_ll_grammar {
    use crate::u_ll_grammar_trait::ULlGrammarTrait;
    #[derive(Default)]
    pub struct ULlGrammar<'t> { _p: std::marker::PhantomData<&'t ()> }
    impl<'t> ULlGrammarTrait<'t> for ULlGrammar<'t> {}
}
// ================= fifth toy grammar: global %allow_unmatched, strict state BLK entered by `[` and left by `]` =================
const PIECES5: [&str; 6] = ["a", "b", "[", "]", "?", " "];
/// reference: in INITIAL `a` and `[` are terminals and everything else (but blanks) is unmatched text, which is allowed there;
/// in BLK `b` and `]` are terminals and every other character (but blanks) is unmatched - BLK does not allow that
fn g5_accepts(s: &str) -> bool {
    let mut blk = false;
    for c in s.chars() {
        if c == ' ' || c == '\t' || c == '\n' { continue; }
        if !blk { if c == '[' { blk = true; } } else if c == ']' { blk = false; } else if c != 'b' { return false; }
    }
    true
}
/// clause 15 only (and "does not panic")
fn check5(input: &str) -> Option<usize> {
    let inp = input.to_string();
    let r = std::panic::catch_unwind(move || {
        let mut col = Collector::default();
        let mut g = u_ll_grammar::ULlGrammar::default();
        let ok = u_ll_parser::parse_into(&inp, &mut col, "x", &mut g).is_ok();
        (ok, col.leaves)
    });
    let (ok, leaves) = match r { Err(_) => return Some(0), Ok(x) => x };
    if ok != g5_accepts(input) { return Some(15); }
    if ok {
        let mut pos = 0;
        for l in &leaves { if l.start != pos || l.end < l.start || input.get(l.start..l.end) != Some(l.text.as_str()) { return Some(15); } pos = l.end; }
        if pos != input.len() { return Some(15); }
    }
    None
}
mod c_lr_grammar {
    use crate::c_lr_grammar_trait::{CLrGrammarTrait, List, Items, Item};
    use parol_runtime::Result;
    #[derive(Default)]
    pub struct CLrGrammar<'t> { pub events: Vec<char>, _p: std::marker::PhantomData<&'t ()> }
    impl<'t> CLrGrammarTrait<'t> for CLrGrammar<'t> {
        fn list(&mut self, _x: &List<'t>) -> Result<()> { self.events.push('L'); Ok(()) }
        fn items(&mut self, _x: &Items<'t>) -> Result<()> { self.events.push('S'); Ok(()) }
        fn item(&mut self, _x: &Item<'t>) -> Result<()> { self.events.push('i'); Ok(()) }
    }
}
// ================= sixth toy grammar (LALR(1)): List: '['^ Items ']'^; Items: Item | Items ','^ Item; Item: 'x' =================
const PIECES6: [&str; 6] = ["[", "]", "x", ",", " ", "?"];
/// number of items of the sentence `[ x {, x} ]` (blanks ignored), None if the input is not a sentence
fn g6_items(s: &str) -> Option<usize> {
    let sig: Vec<char> = s.chars().filter(|c| *c != ' ' && *c != '\t' && *c != '\n').collect();
    if sig.len() < 3 || sig[0] != '[' || sig[sig.len() - 1] != ']' { return None; }
    let inner = &sig[1..sig.len() - 1];
    if inner.len() % 2 != 1 { return None; }
    for (i, c) in inner.iter().enumerate() { if *c != (if i % 2 == 0 { 'x' } else { ',' }) { return None; } }
    Some((inner.len() + 1) / 2)
}
/// clause 16 only (and "does not panic")
fn check6(input: &str) -> Option<usize> {
    let inp = input.to_string();
    let r = std::panic::catch_unwind(move || {
        let mut col = Collector::default();
        let mut g = c_lr_grammar::CLrGrammar::default();
        let ok = c_lr_parser::parse_into(&inp, &mut col, "x", &mut g).is_ok();
        (ok, col.leaves, col.shape, g.events)
    });
    let (ok, leaves, shape, events) = match r { Err(_) => return Some(0), Ok(x) => x };
    let want = g6_items(input);
    if ok != want.is_some() { return Some(16); }
    if let Some(n) = want {
        let mut pos = 0;
        for l in &leaves { if l.start != pos || l.end < l.start || input.get(l.start..l.end) != Some(l.text.as_str()) { return Some(16); } pos = l.end; }
        if pos != input.len() { return Some(16); }
        // children of the global root that are non-terminals: exactly one, List
        let mut depth = 0i64; let mut tops: Vec<String> = vec![];
        for e in &shape { if e.starts_with('<') { if depth == 1 { tops.push(e[1..].to_string()); } depth += 1; } else if e == ">" { depth -= 1; } }
        if tops != vec!["List".to_string()] { return Some(16); }
        // rightmost derivation in reverse: Item, Items, then (Item, Items) per further element, finally List; the generated
        // adapter calls the user action of a production when it is reduced
        let mut exp: Vec<char> = vec![];
        for _ in 0..n { exp.push('i'); exp.push('S'); }
        exp.push('L');
        if events != exp { return Some(16); }
    }
    None
}
// ================= second toy grammar: nested expressions (LL(1) / LALR(1), full tree and trimmed) =================
const G2_VARIANTS: [&str; 12] = ["expr LL(k)", "expr LALR(1)", "expr LL(k) trimmed", "expr LALR(1) trimmed", "expr LL(k) depth limit 1000", "expr LALR(1) depth limit 1000", "expr LL(k) depth limit 3", "expr LALR(1) depth limit 4", "expr LL(k) depth limit 3 trimmed", "expr LALR(1) depth limit 4 trimmed", "expr LL(k) depth limit 0", "expr LALR(1) depth limit 0"];
const NUM: u16 = 5; const PLUS: u16 = 6; const OPEN: u16 = 7; const CLOSE: u16 = 8; const ERR2: u16 = 9;
fn reference_tokens2(s: &str) -> Vec<RTok> {
    let b = s.as_bytes();
    let mut out: Vec<RTok> = vec![];
    let mut i = 0;
    while i < b.len() {
        let c = b[i];
        let rest = &s[i..];
        if c == b'\n' { out.push(RTok { ty: NL, start: i, end: i + 1, skip: true }); i += 1; continue; }
        if c == b' ' || c == b'\t' { let mut j = i; while j < b.len() && (b[j] == b' ' || b[j] == b'\t') { j += 1; } out.push(RTok { ty: WS, start: i, end: j, skip: true }); i = j; continue; }
        let one = |ty: u16| RTok { ty, start: i, end: i + 1, skip: false };
        if c == b'n' { out.push(one(NUM)); i += 1; continue; }
        if c == b'+' { out.push(one(PLUS)); i += 1; continue; }
        if c == b'(' { out.push(one(OPEN)); i += 1; continue; }
        if c == b')' { out.push(one(CLOSE)); i += 1; continue; }
        if rest.starts_with("//") { let mut j = i; while j < b.len() && b[j] != b'\n' { j += 1; } if j < b.len() { j += 1; } out.push(RTok { ty: LC, start: i, end: j, skip: true }); i = j; continue; }
        if rest.starts_with("/*") { if let Some(p) = rest[2..].find("*/") { let j = i + 2 + p + 2; out.push(RTok { ty: BC, start: i, end: j, skip: true }); i = j; continue; } }
        let n = rest.chars().next().unwrap().len_utf8();
        out.push(RTok { ty: ERR2, start: i, end: i + n, skip: false }); i += n;
    }
    out
}
/// independent recognizer of E: T { '+' T }; T: 'n' | '(' E ')'
fn is_expr(t: &[u16]) -> bool {
    fn e(t: &[u16], mut p: usize) -> Option<usize> { p = tt(t, p)?; while p < t.len() && t[p] == PLUS { p = tt(t, p + 1)?; } Some(p) }
    fn tt(t: &[u16], p: usize) -> Option<usize> {
        if p >= t.len() { return None; }
        if t[p] == NUM { return Some(p + 1); }
        if t[p] == OPEN { let q = e(t, p + 1)?; if q < t.len() && t[q] == CLOSE { return Some(q + 1); } }
        None
    }
    e(t, 0) == Some(t.len())
}
fn is_depth_err(r: &Result<(), ParolError>) -> bool {
    matches!(r, Err(ParolError::ParserError(parol_runtime::ParserError::MaxParsingDepthExceeded { .. })))
}
/// maximal LL(k) production depth of a sentence of the expression grammar: the number of simultaneously open productions,
/// list (push) productions not counted: E opens at base+1, a term at base+2, its terminal wrapper (or the parenthesis
/// wrappers) at base+3, a parenthesised inner E starts with base+2
fn ll_depth(t: &[u16]) -> usize {
    fn e(t: &[u16], mut p: usize, base: usize, mx: &mut usize) -> usize {
        p = term(t, p, base, mx);
        while p < t.len() && t[p] == PLUS { p = term(t, p + 1, base, mx); }
        p
    }
    fn term(t: &[u16], p: usize, base: usize, mx: &mut usize) -> usize {
        *mx = (*mx).max(base + 3);
        if t[p] == NUM { return p + 1; }
        let q = e(t, p + 1, base + 2, mx);
        q + 1
    }
    let mut mx = 0;
    e(t, 0, 0, &mut mx);
    mx
}
fn run2(v: usize, input: &str) -> Run {
    let inp = input.to_string();
    let r = std::panic::catch_unwind(move || {
        let mut col = Collector::default();
        macro_rules! go { ($g:ident, $ty:ident, $p:ident) => {{ let mut g = $g::$ty::default(); let r = $p::parse_into(&inp, &mut col, "x", &mut g); (r.is_ok(), is_depth_err(&r), col.leaves, g.events, col.shape) }} }
        match v {
            1 => go!(e_lr_grammar, ELrGrammar, e_lr_parser),
            2 => go!(e_ll_t_grammar, ELlTGrammar, e_ll_t_parser),
            3 => go!(e_lr_t_grammar, ELrTGrammar, e_lr_t_parser),
            4 => go!(e_ll_d_grammar, ELlDGrammar, e_ll_d_parser),
            5 => go!(e_lr_d_grammar, ELrDGrammar, e_lr_d_parser),
            6 => go!(e_ll_s_grammar, ELlSGrammar, e_ll_s_parser),
            7 => go!(e_lr_s_grammar, ELrSGrammar, e_lr_s_parser),
            8 => go!(e_ll_ts_grammar, ELlTsGrammar, e_ll_ts_parser),
            9 => go!(e_lr_ts_grammar, ELrTsGrammar, e_lr_ts_parser),
            10 => go!(e_ll_z_grammar, ELlZGrammar, e_ll_z_parser),
            11 => go!(e_lr_z_grammar, ELrZGrammar, e_lr_z_parser),
            _ => go!(e_ll_grammar, ELlGrammar, e_ll_parser),
        }
    });
    match r { Ok((ok, depth_err, leaves, events, shape)) => Run { ok, leaves, events, panicked: false, depth_err, shape }, Err(_) => Run { ok: false, leaves: vec![], events: vec![], panicked: true, depth_err: false, shape: vec![] } }
}
/// same clause indices as check()
fn check2(v: usize, input: &str) -> Option<usize> {
    let want = reference_tokens2(input);
    let r = run2(v, input);
    if r.panicked { return Some(0); }
    let sigs: Vec<u16> = want.iter().filter(|t| !t.skip).map(|t| t.ty).collect();
    let expect_ok = !want.iter().any(|t| t.ty == ERR2) && is_expr(&sigs);
    if v == 10 {
        // LL(k) with depth limit 0: the very first production already exceeds the limit - every input yields the depth-limit error
        return if r.depth_err && !r.ok { None } else { Some(10) };
    }
    if v == 11 {
        // LALR(1) with depth limit 0: the state stack (one entry) exceeds the limit at once
        return if r.depth_err && !r.ok { None } else { Some(10) };
    }
    if v == 6 || v == 8 {
        // LL(k) with depth limit 3 (full tree / trimmed): a sentence whose production depth stays within the limit parses as without a limit;
        // a deeper sentence yields exactly the depth-limit error; a non-sentence yields some error
        if expect_ok {
            let deep = ll_depth(&sigs) > 3;
            if deep != r.depth_err || r.ok == deep { return Some(10); }
            if deep { return None; }
        } else { if r.ok { return Some(10); } return None; }
    } else if v == 7 || v == 9 {
        // LALR(1) with depth limit 4 (full tree / trimmed) (the LR parser limits its state stack): the unlimited outcome or the depth-limit error
        if r.depth_err { return None; }
        if r.ok != expect_ok { return Some(10); }
        if !r.ok { return None; }
    } else {
        if r.depth_err { return Some(10); }     // a limit of 1000 is never reached by the enumerated inputs
        if r.ok != expect_ok { return Some(1); }
        if !r.ok { return None; }
    }
    let kind_of = |ty: u16| match ty { NUM => 'n', PLUS => '+', OPEN => '(', _ => ')' };
    let acts: Vec<(char, usize)> = r.events.iter().filter(|e| e.kind != 'c' && !e.kind.is_ascii_uppercase()).map(|e| (e.kind, e.start)).collect();
    let want_acts: Vec<(char, usize)> = want.iter().filter(|t| !t.skip).map(|t| (kind_of(t.ty), t.start)).collect();
    let cms: Vec<(usize, usize)> = r.events.iter().filter(|e| e.kind == 'c').map(|e| (e.start, e.end)).collect();
    let want_cms: Vec<(usize, usize)> = want.iter().filter(|t| t.ty == LC || t.ty == BC).map(|t| (t.start, t.end)).collect();
    if v == 2 || v == 3 || v == 8 || v == 9 {
        if !r.leaves.is_empty() { return Some(4); }
    } else {
        let mut pos = 0;
        for l in &r.leaves { if l.start != pos || l.end < l.start { return Some(2); } pos = l.end; }
        if pos != input.len() { return Some(2); }
        for l in &r.leaves { if input.get(l.start..l.end) != Some(l.text.as_str()) { return Some(3); } }
        if r.leaves.len() != want.len() { return Some(4); }
        for (l, w) in r.leaves.iter().zip(&want) { if l.ty != w.ty || l.start != w.start || l.end != w.end { return Some(4); } }
        for l in &r.leaves { if (l.line, l.col) != line_col(input, l.start) || (l.eline, l.ecol) != line_col(input, l.end) { return Some(5); } }
    }
    if acts != want_acts { return Some(7); }
    if cms != want_cms { return Some(8); }
    // post-order of the derivation tree of E: T { Plus T }; T: Num | Open E Close
    fn po_e(t: &[u16], mut p: usize, out: &mut Vec<char>) -> usize { p = po_t(t, p, out); while p < t.len() && t[p] == PLUS { out.push('+'); p = po_t(t, p + 1, out); } out.push('E'); p }
    fn po_t(t: &[u16], p: usize, out: &mut Vec<char>) -> usize {
        if t[p] == NUM { out.push('n'); out.push('T'); return p + 1; }
        out.push('('); let q = po_e(t, p + 1, out); out.push(')'); out.push('T'); q + 1
    }
    let mut post = vec![];
    po_e(&sigs, 0, &mut post);
    let got: Vec<char> = r.events.iter().filter(|e| e.kind != 'c').map(|e| e.kind).collect();
    if got != post { return Some(11); }
    // shape of the LL tree (untrimmed LL variants): E: T EList; EList: Plus T EList | ; T: Num | Open E Close; wrappers hold one token
    if v % 2 == 0 && v != 2 && v != 8 {
        fn pos_of(want: &[RTok], k: usize) -> String { format!("{}", want.iter().filter(|t| !t.skip).nth(k).unwrap().start) }
        fn sh_e(t: &[u16], w: &[RTok], mut p: usize, out: &mut Vec<String>) -> usize {
            out.push("<E".into()); p = sh_t(t, w, p, out); p = sh_list(t, w, p, out); out.push(">".into()); p
        }
        fn sh_list(t: &[u16], w: &[RTok], mut p: usize, out: &mut Vec<String>) -> usize {
            out.push("<?".into());
            if p < t.len() && t[p] == PLUS { out.push("<Plus".into()); out.push(pos_of(w, p)); out.push(">".into()); p = sh_t(t, w, p + 1, out); p = sh_list(t, w, p, out); }
            out.push(">".into()); p
        }
        fn sh_t(t: &[u16], w: &[RTok], p: usize, out: &mut Vec<String>) -> usize {
            out.push("<T".into());
            let q = if t[p] == NUM { out.push("<Num".into()); out.push(pos_of(w, p)); out.push(">".into()); p + 1 }
                    else { out.push("<Open".into()); out.push(pos_of(w, p)); out.push(">".into()); let q = sh_e(t, w, p + 1, out);
                           out.push("<Close".into()); out.push(pos_of(w, q)); out.push(">".into()); q + 1 };
            out.push(">".into()); q
        }
        let mut shape = vec!["<".to_string()];
        sh_e(&sigs, &want, 0, &mut shape);
        shape.push(">".to_string());
        // helper non-terminals introduced by the transformation (the list) are compared by position only, not by name
        let norm: Vec<String> = r.shape.iter().map(|x| if x.starts_with('<') && !["<", "<E", "<T", "<Num", "<Plus", "<Open", "<Close"].contains(&x.as_str()) { "<?".to_string() } else { x.clone() }).collect();
        if norm != shape { return Some(12); }
    }
    None
}
const PIECES2: [&str; 9] = ["n", "+", "(", ")", " ", "\n", "//c\n", "/*c*/", "?"];
const PIECES: [&str; 20] = ["a", "b", "#", " ", "\n", "//c\n", "/*c*/", "?", "ä", "//", "\t", ";", "q", "r", "s", "t", "u", "--a\n", "-", "!"];
fn esc(s: &str) -> String { s.chars().map(|c| format!("{}", c as u32)).collect::<Vec<_>>().join(",") }
static PROGRESS: std::sync::atomic::AtomicU64 = std::sync::atomic::AtomicU64::new(0);
static CURRENT: std::sync::Mutex<String> = std::sync::Mutex::new(String::new());
/// a monitor thread: when one parse makes no progress for 30 s the search reports the hanging input and exits
/// properties that speak about one parser kind only look at that kind's variants (C02, C08: LL(k); C03: LALR(1))
fn variant_relevant(prop: &str, grammar: usize, v: usize) -> bool {
    let lr = if grammar == 1 { v == 1 || v == 3 } else { v % 2 == 1 };
    match prop { "C01" | "C02" | "C08" => !lr, "C03" => lr, _ => true }
}
fn start_watchdog() {
    std::thread::spawn(|| {
        let mut last = u64::MAX; let mut since = std::time::Instant::now();
        loop {
            std::thread::sleep(std::time::Duration::from_millis(500));
            let p = PROGRESS.load(std::sync::atomic::Ordering::Relaxed);
            if p != last { last = p; since = std::time::Instant::now(); }
            else if since.elapsed().as_secs() >= 30 {
                let cur = CURRENT.lock().map(|c| c.clone()).unwrap_or_default();
                println!("BORDER-VIOLATION\t{}\t{}", CLAUSES[9].1, cur);
                std::process::exit(1);
            }
        }
    });
}
fn main() {
    std::panic::set_hook(Box::new(|_| {}));
    let a: Vec<String> = std::env::args().collect();
    if a[1] == "search" {
        let prop = a[2].as_str();
        let maxlen: usize = a[3].parse().unwrap();
        start_watchdog();
        let mut cases = 0u64;
        let mut stack: Vec<Vec<usize>> = vec![vec![]];
        // the first violating input per clause; the search goes on so that one violated clause (possibly a
        // known finding) does not hide the others.  check() reports the first violated clause of an input, and
        // the gap-position clause is tested last, so inputs failing only it are still checked for all others.
        let mut first: Vec<Option<String>> = vec![None; CLAUSES.len()];
        while let Some(p) = stack.pop() {
            let input: String = p.iter().map(|i| PIECES[*i]).collect();
            // `*/` directly followed by `/` makes the generated block-comment regex run past the first end
            // delimiter (observed defect belonging to C15, which is not claimed): such inputs are excluded
            let excluded = input.contains("*//");
            for v in 0..VARIANTS.len() {
                if excluded || !variant_relevant(prop, 1, v) { continue; }
                cases += 1;
                PROGRESS.fetch_add(1, std::sync::atomic::Ordering::Relaxed);
                if let Ok(mut c) = CURRENT.lock() { *c = format!("{{\"v\":{},\"chars\":[{}]}}", v, esc(&input)); }
                if let Some(ci) = check(v, &input) {
                    if first[ci].is_none() { first[ci] = Some(format!("{{\"v\":{},\"chars\":[{}]}}", v, esc(&input))); }
                }
            }
            if p.len() < maxlen { for i in 0..PIECES.len() { let mut q = p.clone(); q.push(i); stack.push(q); } }
        }
        // second grammar (nested expressions): inputs of up to maxlen + 1 pieces
        let mut stack: Vec<Vec<usize>> = vec![vec![]];
        while let Some(p) = stack.pop() {
            let input: String = p.iter().map(|i| PIECES2[*i]).collect();
            if !input.contains("*//") {
                for v in 0..G2_VARIANTS.len() {
                    if !variant_relevant(prop, 2, v) { continue; }
                    cases += 1;
                    PROGRESS.fetch_add(1, std::sync::atomic::Ordering::Relaxed);
                    if let Ok(mut c) = CURRENT.lock() { *c = format!("{{\"g\":2,\"v\":{},\"chars\":[{}]}}", v, esc(&input)); }
                    if let Some(ci) = check2(v, &input) {
                        if first[ci].is_none() { first[ci] = Some(format!("{{\"g\":2,\"v\":{},\"chars\":[{}]}}", v, esc(&input))); }
                    }
                }
            }
            if p.len() < maxlen + 1 { for i in 0..PIECES2.len() { let mut q = p.clone(); q.push(i); stack.push(q); } }
        }
        // third grammar (C16 only): inputs of up to maxlen + 1 pieces
        if prop == "C16" || prop == "all" {
            let mut stack: Vec<Vec<usize>> = vec![vec![]];
            while let Some(p) = stack.pop() {
                let input: String = p.iter().map(|i| PIECES3[*i]).collect();
                cases += 1;
                PROGRESS.fetch_add(1, std::sync::atomic::Ordering::Relaxed);
                if let Some(ci) = check3(&input) { if first[ci].is_none() { first[ci] = Some(format!("{{\"g\":3,\"v\":0,\"chars\":[{}]}}", esc(&input))); } }
                if p.len() < maxlen + 1 { for i in 0..PIECES3.len() { let mut q = p.clone(); q.push(i); stack.push(q); } }
            }
        }
        // sixth grammar (C03): inputs of up to maxlen + 2 pieces
        if prop == "C03" || prop == "all" {
            let mut stack: Vec<Vec<usize>> = vec![vec![]];
            while let Some(p) = stack.pop() {
                let input: String = p.iter().map(|i| PIECES6[*i]).collect();
                cases += 1;
                PROGRESS.fetch_add(1, std::sync::atomic::Ordering::Relaxed);
                if let Ok(mut c) = CURRENT.lock() { *c = format!("{{\"g\":6,\"v\":0,\"chars\":[{}]}}", esc(&input)); }
                if let Some(ci) = check6(&input) { if first[ci].is_none() { first[ci] = Some(format!("{{\"g\":6,\"v\":0,\"chars\":[{}]}}", esc(&input))); } }
                if p.len() < maxlen + 2 { for i in 0..PIECES6.len() { let mut q = p.clone(); q.push(i); stack.push(q); } }
            }
        }
        // fifth grammar (C16): inputs of up to maxlen + 1 pieces
        if prop == "C16" || prop == "all" {
            let mut stack: Vec<Vec<usize>> = vec![vec![]];
            while let Some(p) = stack.pop() {
                let input: String = p.iter().map(|i| PIECES5[*i]).collect();
                cases += 1;
                PROGRESS.fetch_add(1, std::sync::atomic::Ordering::Relaxed);
                if let Ok(mut c) = CURRENT.lock() { *c = format!("{{\"g\":5,\"v\":0,\"chars\":[{}]}}", esc(&input)); }
                if let Some(ci) = check5(&input) { if first[ci].is_none() { first[ci] = Some(format!("{{\"g\":5,\"v\":0,\"chars\":[{}]}}", esc(&input))); } }
                if p.len() < maxlen + 1 { for i in 0..PIECES5.len() { let mut q = p.clone(); q.push(i); stack.push(q); } }
            }
        }
        // fourth grammar (C01, C13): inputs of up to maxlen + 1 pieces
        if prop == "C01" || prop == "C13" || prop == "all" {
            let mut stack: Vec<Vec<usize>> = vec![vec![]];
            while let Some(p) = stack.pop() {
                let input: String = p.iter().map(|i| PIECES4[*i]).collect();
                cases += 1;
                PROGRESS.fetch_add(1, std::sync::atomic::Ordering::Relaxed);
                if let Ok(mut c) = CURRENT.lock() { *c = format!("{{\"g\":4,\"v\":0,\"chars\":[{}]}}", esc(&input)); }
                if let Some(ci) = check4(&input) { if first[ci].is_none() { first[ci] = Some(format!("{{\"g\":4,\"v\":0,\"chars\":[{}]}}", esc(&input))); } }
                if p.len() < maxlen + 1 { for i in 0..PIECES4.len() { let mut q = p.clone(); q.push(i); stack.push(q); } }
            }
        }
        let mut bad = false;
        for (ci, (p, c)) in CLAUSES.iter().enumerate() {
            if !(prop == "all" || p.split(' ').any(|x| x == prop)) { continue; }
            match &first[ci] {
                Some(w) => { println!("BORDER-VIOLATION\t{}\t{}", c, w); bad = true; }
                None => println!("CHECKED\t{}\t{}", c, cases),
            }
        }
        if bad { std::process::exit(1); }
    } else if a[1] == "show2" {
        let input = a[2].replace("\\n", "\n");
        for v in 0..G2_VARIANTS.len() { let r = run2(v, &input); println!("{} ok={} panicked={}\n leaves={:?}\n events={:?}\n want={:?}\n violated={:?}", G2_VARIANTS[v], r.ok, r.panicked, r.leaves, r.events, reference_tokens2(&input), check2(v, &input).map(|i| CLAUSES[i].1)); }
    } else if a[1] == "show" {
        let input = a[2].replace("\\n", "\n");
        for v in 0..VARIANTS.len() { let r = run(v, &input); println!("{} ok={} panicked={}\n leaves={:?}\n events={:?}\n want={:?}\n violated={:?}", VARIANTS[v], r.ok, r.panicked, r.leaves, r.events, reference_tokens(&input), check(v, &input).map(|i| CLAUSES[i].1)); }
    } else {
        let s = &a[2];
        // older replay files carry "lr":bool, newer ones "v":variant
        let v: usize = if let Some(p) = s.find("\"v\":") { s[p + 4..].chars().take_while(|c| c.is_ascii_digit()).collect::<String>().parse().unwrap() } else if s.contains("\"lr\":true") { 1 } else { 0 };
        let cs = &s[s.find("\"chars\"").unwrap()..];
        let input: String = cs.split(|c: char| !c.is_ascii_digit()).filter(|x| !x.is_empty()).map(|x| char::from_u32(x.parse().unwrap()).unwrap()).collect();
        if s.contains("\"g\":3") {
            let cs = &s[s.find("\"chars\"").unwrap()..];
            let input: String = cs.split(|c: char| !c.is_ascii_digit()).filter(|x| !x.is_empty()).map(|x| char::from_u32(x.parse().unwrap()).unwrap()).collect();
            println!("input {:?} with the LL(k) parser of grammar 3 (%auto_newline_off)", input);
            match check3(&input) { Some(ci) => { println!("REPRODUCED on the real crates: violated `{}`", CLAUSES[ci].1); std::process::exit(1) } None => { println!("the recorded input satisfies all clauses on the current tree"); return; } }
        }
        if s.contains("\"g\":6") {
            println!("input {:?} with the LALR(1) parser of grammar 6 (clipped terminals)", input);
            match check6(&input) { Some(ci) => { println!("REPRODUCED on the real crates: violated `{}`", CLAUSES[ci].1); std::process::exit(1) } None => { println!("the recorded input satisfies all clauses on the current tree"); return; } }
        }
        if s.contains("\"g\":5") {
            println!("input {:?} with the LL(k) parser of grammar 5 (global %allow_unmatched, strict state BLK)", input);
            match check5(&input) { Some(ci) => { println!("REPRODUCED on the real crates: violated `{}`", CLAUSES[ci].1); std::process::exit(1) } None => { println!("the recorded input satisfies all clauses on the current tree"); return; } }
        }
        if s.contains("\"g\":4") {
            println!("input {:?} with the LL(k) parser of grammar 4 (mixed-kind lookaheads, two groups)", input);
            match check4(&input) { Some(ci) => { println!("REPRODUCED on the real crates: violated `{}`", CLAUSES[ci].1); std::process::exit(1) } None => { println!("the recorded input satisfies all clauses on the current tree"); return; } }
        }
        let g2 = s.contains("\"g\":2");
        println!("input {:?} with the {} parser", input, if g2 { G2_VARIANTS[v] } else { VARIANTS[v] });
        match if g2 { check2(v, &input) } else { check(v, &input) } {
            Some(ci) => { println!("REPRODUCED on the real crates: violated `{}`", CLAUSES[ci].1); std::process::exit(1) }
            None => println!("the recorded input satisfies all clauses on the current tree"),
        }
    }
}
