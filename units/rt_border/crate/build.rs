// generates the LL(k) and the LALR(1) parser of the toy grammar with the REAL parol crate (path dependency)
use parol::build::Builder;
fn main() {
    // the crate directory is generated afresh on every run: a missing output must re-run this script
    for f in ["ll_parser.rs", "ll_grammar_trait.rs", "lr_parser.rs", "lr_grammar_trait.rs"] { println!("cargo:rerun-if-changed=src/gen/{f}"); }
    println!("cargo:rerun-if-changed=build.rs");
    for (g, p) in [("g_ll.par", "ll"), ("g_lr.par", "lr")] {
        std::fs::create_dir_all("src/gen").unwrap();
        let mut b = Builder::with_explicit_output_dir("src/gen");
        b.grammar_file(g)
            .parser_output_file(format!("{p}_parser.rs"))
            .actions_output_file(format!("{p}_grammar_trait.rs"))
            .user_type_name(if p == "ll" { "LlGrammar" } else { "LrGrammar" })
            .user_trait_module_name(&format!("{p}_grammar"));
        b.max_lookahead(3).unwrap();
        if let Err(e) = b.generate_parser() {
            panic!("parol failed on {g}: {e:?}");
        }
    }
}
