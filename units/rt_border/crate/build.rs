// generates the LL(k) and the LALR(1) parser of the toy grammar with the REAL parol crate (path dependency)
use parol::build::Builder;
fn main() {
    // the crate directory is generated afresh on every run: a missing output must re-run this script
    for p in ["ll", "lr", "ll_t", "lr_t", "ll_n", "e_ll", "e_lr", "e_ll_t", "e_lr_t", "e_ll_d", "e_lr_d", "e_ll_s", "e_lr_s", "e_ll_ts", "e_lr_ts", "e_ll_z", "e_lr_z", "n_ll", "ll_tn", "k_ll", "u_ll", "c_lr"] { for f in ["parser.rs", "grammar_trait.rs"] { println!("cargo:rerun-if-changed=src/gen/{p}_{f}"); } }
    println!("cargo:rerun-if-changed=build.rs");
    for g in ["g_ll.par", "g_lr.par", "g2_ll.par", "g2_lr.par", "g3_ll.par", "g4_ll.par", "g5_ll.par", "g6_lr.par"] { println!("cargo:rerun-if-changed={g}"); }
    // five parsers: LL(k) and LALR(1), each with the full parse tree and with `trim_parse_tree`, and LL(k) with recovery disabled
    for (g, p, ty) in [("g_ll.par", "ll", "LlGrammar"), ("g_lr.par", "lr", "LrGrammar"), ("g_ll.par", "ll_t", "LlTGrammar"), ("g_lr.par", "lr_t", "LrTGrammar"), ("g_ll.par", "ll_n", "LlNGrammar"),
        ("g2_ll.par", "e_ll", "ELlGrammar"), ("g2_lr.par", "e_lr", "ELrGrammar"), ("g2_ll.par", "e_ll_t", "ELlTGrammar"), ("g2_lr.par", "e_lr_t", "ELrTGrammar"),
        ("g2_ll.par", "e_ll_d", "ELlDGrammar"), ("g2_lr.par", "e_lr_d", "ELrDGrammar"), ("g2_ll.par", "e_ll_s", "ELlSGrammar"), ("g2_lr.par", "e_lr_s", "ELrSGrammar"),
        ("g2_ll.par", "e_ll_ts", "ELlTsGrammar"), ("g2_lr.par", "e_lr_ts", "ELrTsGrammar"), ("g2_ll.par", "e_ll_z", "ELlZGrammar"), ("g2_lr.par", "e_lr_z", "ELrZGrammar"),
        ("g3_ll.par", "n_ll", "NLlGrammar"), ("g_ll.par", "ll_tn", "LlTnGrammar"), ("g4_ll.par", "k_ll", "KLlGrammar"), ("g5_ll.par", "u_ll", "ULlGrammar"), ("g6_lr.par", "c_lr", "CLrGrammar")] {
        std::fs::create_dir_all("src/gen").unwrap();
        let mut b = Builder::with_explicit_output_dir("src/gen");
        b.grammar_file(g)
            .parser_output_file(format!("{p}_parser.rs"))
            .actions_output_file(format!("{p}_grammar_trait.rs"))
            .user_type_name(ty)
            .user_trait_module_name(&format!("{p}_grammar"));
        b.max_lookahead(3).unwrap();
        if p.ends_with("_t") { b.trim_parse_tree(); }
        if p.ends_with("_n") { b.disable_recovery(); }
        if p == "ll_tn" { b.trim_parse_tree(); b.disable_recovery(); }   // options combined: no tree AND no recovery
        if p.ends_with("_d") { b.max_parsing_depth(1000); }   // a limit no enumerated input reaches
        if p == "e_ll_s" { b.max_parsing_depth(3); }          // small limits: nested inputs exceed them
        if p == "e_lr_s" { b.max_parsing_depth(4); }
        if p == "e_ll_ts" { b.max_parsing_depth(3); b.trim_parse_tree(); }   // options combined: small limit AND trimmed tree
        if p == "e_lr_ts" { b.max_parsing_depth(4); b.trim_parse_tree(); }
        if p.ends_with("_z") { b.max_parsing_depth(0); }                      // boundary: limit 0 refuses every input
        if let Err(e) = b.generate_parser() {
            panic!("parol failed on {g}: {e:?}");
        }
    }
}
