// Bounded native check `c08_table_border`: the two generator-side ASSUMPTIONS of the C08 proof, checked on a family of small
// grammars with the REAL parol crate (path dependency on /repo):
//   (1) dfa_wf - the generated transition table is strictly sorted by (from-state, terminal), its productions are valid,
//       an accepting start state has no transitions (what unit c08_eval requires of `self`);
//   (2) faithfulness - walking the generated (minimized) automaton strictly along a lookahead predicts production p exactly
//       when the lookahead begins with one of p's lookahead strings, and nothing otherwise.
// Family: S: A "z"; A: P | Q; P and Q derive two disjoint finite sets L1, L2 of two-token strings over {a, b, c}; so the
// lookahead strings of the two alternatives of A are known exactly (L1, L2; or their first tokens when parol decides with k=1).
// The walk is the spec function `predict` of unit c08_eval (which Verus proves equal to LookaheadDFA::eval), re-implemented here.
// Bounded stand-in, labelled bounded, never counted as proved.
use parol::{generate_parser_export_model_from_grammar, obtain_grammar_config_from_string};
use std::collections::BTreeMap;

const SIGMA: [&str; 3] = ["a", "b", "c"];
fn pairs() -> Vec<(usize, usize)> { let mut v = vec![]; for x in 0..3 { for y in 0..3 { v.push((x, y)); } } v }
fn subsets(max: usize) -> Vec<Vec<usize>> {
    // index sets into pairs() of size 1..=max
    let mut out = vec![];
    fn rec(start: usize, cur: &mut Vec<usize>, max: usize, out: &mut Vec<Vec<usize>>) {
        if !cur.is_empty() { out.push(cur.clone()); }
        if cur.len() == max { return; }
        for i in start..9 { cur.push(i); rec(i + 1, cur, max, out); cur.pop(); }
    }
    rec(0, &mut vec![], max, &mut out);
    out
}
fn grammar(l1: &[usize], l2: &[usize]) -> String {
    let p = pairs();
    let mut g = String::from("%start S\n%%\nS: A \"z\";\nA: P;\nA: Q;\n");
    for i in l1 { g += &format!("P: \"{}\" \"{}\";\n", SIGMA[p[*i].0], SIGMA[p[*i].1]); }
    for i in l2 { g += &format!("Q: \"{}\" \"{}\";\n", SIGMA[p[*i].0], SIGMA[p[*i].1]); }
    g
}
struct Dfa { prod0: i32, tr: Vec<(usize, u16, usize, i32)>, k: usize }
/// strict walk: the production of the longest prefix of `la` that leads to an accepting state, -1 if none (spec `predict`)
fn predict(d: &Dfa, la: &[u16]) -> i32 {
    let mut state = 0usize;
    let mut cur = d.prod0;
    for t in la.iter().take(d.k) {
        match d.tr.iter().find(|x| x.0 == state && x.1 == *t) {
            None => break,
            Some(x) => { state = x.2; if x.3 > -1 { cur = x.3; } }
        }
    }
    cur
}
const CLAUSES: [&str; 4] = [
    "parol accepts the grammar (two alternatives with disjoint finite lookahead sets are LL(2))",
    "generated table is well-formed (strictly sorted by (from-state, terminal), productions valid, accepting start state has no transitions): the dfa_wf precondition of eval",
    "the generated automaton predicts production p exactly for the lookaheads that begin with one of p's lookahead strings",
    "the generated automaton predicts nothing for every other lookahead (prediction error, no guess)",
];
fn check(l1: &[usize], l2: &[usize]) -> Option<(usize, String)> {
    let g = grammar(l1, l2);
    let model = match std::panic::catch_unwind(|| {
        let cfg = obtain_grammar_config_from_string(&g, false).map_err(|e| e.to_string())?;
        generate_parser_export_model_from_grammar(&cfg, 5).map_err(|e| e.to_string())
    }) { Ok(Ok(m)) => m, Ok(Err(e)) => return Some((0, e.chars().take(120).collect())), Err(_) => return Some((0, "panic".into())) };
    let idx: BTreeMap<String, u16> = model.scanner.terminals.iter().map(|t| (t.pattern.clone(), t.index)).collect();
    // a symbol the grammar does not use is a foreign token for its automaton
    let term = |s: &str| idx.get(s).copied().unwrap_or(1000 + s.as_bytes()[0] as u16);
    let a = match model.lookahead_automata.iter().find(|a| a.non_terminal_name == "A") { Some(a) => a, None => return Some((0, "no automaton for A".into())) };
    let d = Dfa { prod0: a.prod0 as i32, tr: a.transitions.iter().map(|t| (t.from_state, t.term, t.to_state, t.prod_num as i32)).collect(), k: a.k };
    // production numbers of the two alternatives of A
    let p1 = model.productions.iter().position(|p| p.text.starts_with("A: P")).unwrap() as i32;
    let p2 = model.productions.iter().position(|p| p.text.starts_with("A: Q")).unwrap() as i32;
    // (1) dfa_wf
    for w in d.tr.windows(2) { if !((w[0].0, w[0].1) < (w[1].0, w[1].1)) { return Some((1, format!("not strictly sorted: {:?} {:?}", w[0], w[1]))); } }
    if d.tr.iter().any(|t| t.3 < -1 || t.3 >= model.productions.len() as i32) || d.prod0 < -1 { return Some((1, "production number out of range".into())); }
    if d.prod0 > -1 && !d.tr.is_empty() { return Some((1, "accepting start state with transitions".into())); }
    if d.k < 1 || d.k > 2 { return Some((1, format!("k = {} for two-token lookahead strings", d.k))); }
    // (2) faithfulness, for every lookahead of two tokens over {a, b, c, z}
    let ps = pairs();
    let all: Vec<u16> = SIGMA.iter().map(|s| term(s)).chain(std::iter::once(term("z"))).collect();
    let in_set = |l: &[usize], t: u16, u: u16| l.iter().any(|i| term(SIGMA[ps[*i].0]) == t && (d.k == 1 || term(SIGMA[ps[*i].1]) == u));
    for t in &all { for u in &all {
        let want = if in_set(l1, *t, *u) { p1 } else if in_set(l2, *t, *u) { p2 } else { -1 };
        let got = predict(&d, &[*t, *u]);
        if got != want {
            return Some((if want > -1 { 2 } else { 3 }, format!("lookahead [{},{}] (k={}): automaton predicts {}, lookahead sets say {}", t, u, d.k, got, want)));
        }
    } }
    None
}
fn main() {
    std::panic::set_hook(Box::new(|_| {}));
    let a: Vec<String> = std::env::args().collect();
    if a[1] == "search" {
        let max: usize = a[2].parse().unwrap();
        let subs = subsets(max);
        let mut cases = 0u64;
        let mut first: Vec<Option<String>> = vec![None; CLAUSES.len()];
        for l1 in &subs { for l2 in &subs {
            if l1.iter().any(|x| l2.contains(x)) { continue; }
            cases += 1;
            if let Some((ci, why)) = check(l1, l2) {
                if first[ci].is_none() { first[ci] = Some(format!("{{\"l1\":{:?},\"l2\":{:?},\"why\":\"{}\"}}", l1, l2, why.replace('"', "'").replace('\n', " "))); }
            }
        } }
        let mut bad = false;
        for (ci, c) in CLAUSES.iter().enumerate() {
            match &first[ci] { Some(w) => { println!("BORDER-VIOLATION\t{}\t{}", c, w); bad = true; } None => println!("CHECKED\t{}\t{}", c, cases) }
        }
        if bad { std::process::exit(1); }
    } else {
        let s = &a[2];
        let nums = |key: &str| -> Vec<usize> { let r = &s[s.find(key).unwrap()..]; r[r.find('[').unwrap() + 1..r.find(']').unwrap()].split(',').filter_map(|x| x.trim().parse().ok()).collect() };
        let (l1, l2) = (nums("\"l1\""), nums("\"l2\""));
        println!("grammar:\n{}", grammar(&l1, &l2));
        match check(&l1, &l2) {
            Some((ci, why)) => { println!("REPRODUCED on the real crate: violated `{}`: {}", CLAUSES[ci], why); std::process::exit(1) }
            None => println!("the recorded grammar satisfies all clauses on the current tree"),
        }
    }
}
