// Bounded native check of unit c12_border: the REAL parol crate (path dependency on /repo) is linked and
// `augment_grammar`, `Cfg::matching_productions`, `Cfg::get_non_terminal_set` are run on EVERY grammar of a
// small, stated space.  It checks (a) the postcondition of C12 end to end on the real function - this also
// exercises the callees whose contracts the Verus proof of unit c12_augment only assumes (generate_name,
// Pr::new, Cfg::clone, is_used_on_rhs) - and (b) the two public callee contracts directly.
// This is a bounded stand-in, labelled bounded, never counted as proved.
use parol::{Cfg, Pr, Symbol, SymbolAttribute, Terminal, augment_grammar, check_and_transform_grammar};
use parol::parser::parol_grammar::GrammarType;
use std::collections::BTreeSet;

// two name universes.  U0: S0/S1 are the names the fresh-name generator would pick next, so that freshness is really
// exercised.  U1: numeric suffixes whose numeric and lexicographic order disagree (S9 < S10 numerically, "S10" < "S9" as
// strings), so that a generator that walks the (sorted) exclusion set only once is exposed.
const UNIVERSES: [[&str; 4]; 2] = [["S", "A", "S0", "S1"], ["S9", "A", "S10", "S11"]];
static UNIVERSE: std::sync::atomic::AtomicUsize = std::sync::atomic::AtomicUsize::new(0);
struct Nt;
impl Nt { fn len(&self) -> usize { 4 } }
impl std::ops::Index<usize> for Nt { type Output = str; fn index(&self, i: usize) -> &str { UNIVERSES[UNIVERSE.load(std::sync::atomic::Ordering::Relaxed)][i] } }
impl IntoIterator for Nt { type Item = &'static str; type IntoIter = std::array::IntoIter<&'static str, 4>; fn into_iter(self) -> Self::IntoIter { UNIVERSES[UNIVERSE.load(std::sync::atomic::Ordering::Relaxed)].into_iter() } }
const NT: Nt = Nt;

/// symbol codes: 0..4 plain non-terminals, 4..8 the same non-terminals decorated (clipped `S^`), 8 the terminal x
const NSYM: usize = 2 * 4 + 1;
fn sym(code: usize) -> Symbol {
    if code < NT.len() { Symbol::n(&NT[code]) }
    else if code < 2 * NT.len() { Symbol::N(NT[code - NT.len()].to_string(), SymbolAttribute::Clipped, None, None) }
    else { Symbol::T(Terminal::t("x", vec![0], SymbolAttribute::None)) }
}
/// all right-hand sides of length 0..=max_len over NT + {x}
fn all_rhs(max_len: usize) -> Vec<Vec<usize>> {
    let mut out = vec![vec![]];
    let mut cur: Vec<Vec<usize>> = vec![vec![]];
    for _ in 0..max_len {
        let mut nx = vec![];
        for r in &cur { for c in 0..NSYM { let mut t = r.clone(); t.push(c); nx.push(t); } }
        out.extend(nx.iter().cloned());
        cur = nx;
    }
    out
}
fn build(st: usize, prods: &[(usize, Vec<usize>)]) -> Cfg {
    let mut cfg = Cfg::with_start_symbol(&NT[st]);
    for (l, r) in prods { cfg = cfg.add_pr(Pr::new(&NT[*l], r.iter().map(|c| sym(*c)).collect())); }
    cfg
}
fn lhs(p: &Pr) -> String { p.get_n() }
fn nt_of(s: &Symbol) -> Option<&str> { if let Symbol::N(n, ..) = s { Some(n.as_str()) } else { None } }
fn count_lhs(pr: &[Pr], n: &str) -> usize { pr.iter().filter(|p| lhs(p) == n).count() }
fn occurs_on_rhs(pr: &[Pr], n: &str) -> bool { pr.iter().any(|p| p.get_r().iter().any(|s| nt_of(s) == Some(n))) }
fn nt_set(cfg: &Cfg) -> BTreeSet<String> {
    let mut s = BTreeSet::new();
    s.insert(cfg.st.clone());
    for p in &cfg.pr { s.insert(lhs(p)); for x in p.get_r() { if let Some(n) = nt_of(x) { s.insert(n.to_string()); } } }
    s
}
fn describe(st: usize, prods: &[(usize, Vec<usize>)]) -> String {
    let p: Vec<String> = prods.iter().map(|(l, r)| format!("[{},[{}]]", l, r.iter().map(|c| c.to_string()).collect::<Vec<_>>().join(","))).collect();
    format!("{{\"universe\":[{}],\"start\":[{}],\"productions\":[{}]}}", UNIVERSE.load(std::sync::atomic::Ordering::Relaxed), st, p.join(","))
}
/// returns the name of the first violated clause
fn check(st: usize, prods: &[(usize, Vec<usize>)]) -> Option<&'static str> {
    let cfg = build(st, prods);
    // (b) public callee contracts
    for n in NT { if cfg.matching_productions(n).len() != count_lhs(&cfg.pr, n) { return Some("callee: matching_productions(n).len() == number of productions with LHS n"); } }
    if cfg.get_non_terminal_set() != nt_set(&cfg) { return Some("callee: get_non_terminal_set() == {start} + all LHS + all RHS non-terminals"); }
    // (a) the property on the real function
    let r = match std::panic::catch_unwind(|| augment_grammar(&cfg)) { Ok(r) => r, Err(_) => return Some("augment_grammar panicked") };
    if count_lhs(&r.pr, &r.st) != 1 { return Some("the start symbol of the result has exactly one production"); }
    if occurs_on_rhs(&r.pr, &r.st) { return Some("the start symbol of the result occurs on no right-hand side"); }
    let shape_ok = |r: &Cfg| {
        let unchanged = r.st == cfg.st && r.pr == cfg.pr;
        // the property does not say WHERE the new start production goes: any position is accepted
        let augmented = r.pr.len() == cfg.pr.len() + 1 && !nt_set(&cfg).contains(&r.st) && (0..r.pr.len()).any(|k| {
            let mut rest = r.pr.clone(); let p = rest.remove(k);
            rest == cfg.pr && lhs(&p) == r.st && p.get_r().len() == 1 && nt_of(&p.get_r()[0]) == Some(cfg.st.as_str()) });
        unchanged || augmented
    };
    if !shape_ok(&r) { return Some("shape: unchanged, or one fresh unit production S' -> S added"); }
    // (c) the public entry point that hands the grammar on to LALR(1) table construction: whenever it accepts the grammar
    // (productive, reachable) its result must satisfy the same clauses
    match std::panic::catch_unwind(|| check_and_transform_grammar(&cfg, GrammarType::LALR1)) {
        Err(_) => return Some("check_and_transform_grammar(LALR1) panicked"),
        Ok(Err(_)) => {}
        Ok(Ok(t)) => {
            if count_lhs(&t.pr, &t.st) != 1 || occurs_on_rhs(&t.pr, &t.st) { return Some("call site: the grammar handed to LALR(1) table construction has an isolated start symbol"); }
            if !shape_ok(&t) { return Some("call site: the grammar handed to LALR(1) table construction is the input grammar, or the input plus one fresh unit start production"); }
        }
    }
    None
}
fn nums(s: &str) -> Vec<i64> { s.split(|c: char| !(c.is_ascii_digit())).filter(|x| !x.is_empty()).map(|x| x.parse().unwrap()).collect() }
fn main() {
    std::panic::set_hook(Box::new(|_| {}));
    let a: Vec<String> = std::env::args().collect();
    if a[1] == "search" {
        // arguments: pairs (max productions, max right-hand-side length); the spaces are united
        let mut cases = 0u64;
        let mut k = 2;
        while k + 1 < a.len() {
            if a[k].starts_with('U') { UNIVERSE.store(a[k][1..].parse().unwrap(), std::sync::atomic::Ordering::Relaxed); k += 1; continue; }
            let max_prods: usize = a[k].parse().unwrap();
            let max_rhs: usize = a[k + 1].parse().unwrap();
            k += 2;
            let rhs = all_rhs(max_rhs);
            let mut one: Vec<(usize, Vec<usize>)> = vec![];
            for l in 0..NT.len() { for r in &rhs { one.push((l, r.clone())); } }
            let mut stack: Vec<Vec<(usize, Vec<usize>)>> = vec![vec![]];
            while let Some(g) = stack.pop() {
                if !g.is_empty() {
                    for st in 0..NT.len() {
                        cases += 1;
                        if let Some(clause) = check(st, &g) {
                            println!("BORDER-VIOLATION\t{}\t{}", clause, describe(st, &g));
                            std::process::exit(1);
                        }
                    }
                }
                if g.len() < max_prods { for p in &one { let mut h = g.clone(); h.push(p.clone()); stack.push(h); } }
            }
        }
        for c in ["callee: matching_productions(n).len() == number of productions with LHS n",
                  "callee: get_non_terminal_set() == {start} + all LHS + all RHS non-terminals",
                  "the start symbol of the result has exactly one production",
                  "the start symbol of the result occurs on no right-hand side",
                  "shape: unchanged, or one fresh unit production S' -> S added",
                  "call site: the grammar handed to LALR(1) table construction has an isolated start symbol",
                  "call site: the grammar handed to LALR(1) table construction is the input grammar, or the input plus one fresh unit start production"] {
            println!("CHECKED\t{}\t{}", c, cases);
        }
    } else {
        // replay {"start":[s],"productions":[[l,[r..]],..]}
        let s = &a[2];
        if let Some(u) = s.find("\"universe\"") { UNIVERSE.store(nums(&s[u..s.find("\"start\"").unwrap()])[0] as usize, std::sync::atomic::Ordering::Relaxed); }
        let st = nums(&s[s.find("\"start\"").unwrap()..s.find("\"productions\"").unwrap()])[0] as usize;
        let ps = &s[s.find("\"productions\"").unwrap() + 14..];
        let mut prods = vec![];
        // split on "],[" at depth 1
        let inner = ps.trim().trim_start_matches('[').trim_end_matches('}').trim_end_matches(']');
        for part in inner.split("]],[") {
            let n = nums(part);
            if n.is_empty() { continue; }
            prods.push((n[0] as usize, n[1..].iter().map(|x| *x as usize).collect::<Vec<_>>()));
        }
        let cfg = build(st, &prods);
        println!("grammar: start {} productions {}", cfg.st, cfg.pr.iter().map(|p| p.to_string()).collect::<Vec<_>>().join(" "));
        match check(st, &prods) {
            Some(c) => { println!("REPRODUCED on the real crate: violated `{}`", c); std::process::exit(1) }
            None => println!("the recorded grammar satisfies all clauses on the current tree"),
        }
    }
}
