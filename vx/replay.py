"""Replay files and the bounded witness search that runs after a verifier rejection (DESIGN.md 3.6).

The witness search is NOT the deciding step.  It compiles the extracted text (rules applied, no
contract splices: `plain.rs`) natively together with the unit's hand-written `witness.rs`, which
holds an executable rendering of the contract, and enumerates small inputs to find a concrete
input on which the real function violates the contract.
"""
import json
import os
import shutil
import subprocess
import tempfile
import time

ROOT = os.path.dirname(os.path.dirname(os.path.abspath(__file__)))


def build_witness(u, plain: str, work: str, items=None):
    """`witness.rs` either includes the whole native rendering (`include!("plain.rs")`) or names single extracted items with
    lines `//@item <item path>`, which are replaced by that item's native text (real body, rules applied, no contract)"""
    w = u.get('witness')
    if not w:
        return None, 'unit has no witness harness'
    d = os.path.join(work, u['name'] + '_witness')
    os.makedirs(d, exist_ok=True)
    with open(os.path.join(d, 'plain.rs'), 'w') as f:
        f.write(plain)
    src = open(os.path.join(u['dir'], w['harness'])).read()
    out = []
    for ln in src.split('\n'):
        if ln.strip().startswith('//@item '):
            key = ln.strip()[len('//@item '):].strip()
            if not items or key not in items:
                return None, 'witness harness names item `%s` which was not extracted' % key
            out.append(items[key])
        else:
            out.append(ln)
    with open(os.path.join(d, 'witness.rs'), 'w') as f:
        f.write('\n'.join(out))
    p = subprocess.run(['rustc', '--edition', '2021', '-O', '-A', 'warnings', '-o', 'witness', 'witness.rs'], cwd=d,
                       capture_output=True, text=True, timeout=600)
    if p.returncode != 0:
        return None, 'native build of the extracted text failed: ' + p.stderr[-1500:]
    return os.path.join(d, 'witness'), ''


def search_witness(u, plain, work, tier, items=None):
    exe, err = build_witness(u, plain, work, items)
    if exe is None:
        return None, err
    w = u['witness']
    bound = w.get('bound_thorough' if tier == 'thorough' else 'bound_quick', '')
    try:
        p = subprocess.run([exe, 'search'] + str(bound).split(), capture_output=True, text=True, timeout=w.get('timeout_s', 600))
    except subprocess.TimeoutExpired:
        return None, 'witness search timed out'
    for line in p.stdout.split('\n'):
        if line.startswith('WITNESS '):
            return json.loads(line[8:]), p.stdout[-500:]
    return None, 'bounded search (%s) found no failing input: %s' % (bound, p.stdout.strip()[-300:])


def write_replay(prop, u, base, f, work, tier, donor=None):
    os.makedirs(os.path.join(ROOT, 'replays'), exist_ok=True)
    witness, note = None, ''
    if u['backend'] == 'verus':
        witness, note = search_witness(u, base['asm'].plain, work, tier, getattr(base['asm'], 'native_items', None))
    elif u['backend'] in ('kani', 'native'):
        witness, note = getattr(f, 'witness', None), getattr(f, 'witness_note', '')
    replay_unit = u['name']
    if witness is None and donor is not None:
        du, df = donor
        witness, replay_unit = df.witness, du['name']
        note = 'the verifier gives no model; failing input taken from the bounded native search of unit %s on the real crate (%s)' % (du['name'], df.witness_note)
    safe = ''.join(c if c.isalnum() else '_' for c in f.obligation)[:80]
    path = os.path.join(ROOT, 'replays', '%s_%s_%s.json' % (prop, u['name'], safe))
    doc = {
        'property': prop, 'unit': u['name'], 'backend': u['backend'], 'replay_unit': replay_unit,
        'failed_obligation': f.obligation, 'verifier_message': f.message, 'location': f.where,
        'verifier_output': f.rendered,
        'witness': witness, 'witness_note': note,
        'replay_cmd': './check %s --replay %s' % (prop, path),
        'written': time.strftime('%Y-%m-%dT%H:%M:%S'),
    }
    with open(path, 'w') as fh:
        json.dump(doc, fh, indent=1)
    return path, witness is not None


def do_replay(prop, path, units):
    doc = json.load(open(path))
    u = units.get(doc.get('replay_unit') or doc['unit'])
    if u is None:
        print('replay: unit %s not found' % doc['unit'])
        return 2
    print('replay of %s: failed obligation %s (%s) at %s' % (path, doc['failed_obligation'], doc['verifier_message'], doc['location']))
    if not doc.get('witness'):
        print('no failing input was recorded (no-failing-input-found); verifier output follows')
        print(doc['verifier_output'])
        # re-run the deciding check instead
        from .cli import main
        return main([prop])
    work = tempfile.mkdtemp(prefix='parol-verif.', dir='/var/tmp')
    try:
        if u['backend'] == 'verus':
            from .unit import parse_sidecar, assemble
            sc = parse_sidecar(os.path.join(u['dir'], 'unit.vx'))
            asm = assemble(sc)
            exe, err = build_witness(u, asm.plain, work, asm.native_items)
            if exe is None:
                print('UNDECIDED replay: ' + err)
                return 2
            p = subprocess.run([exe, 'replay', json.dumps(doc['witness'])], capture_output=True, text=True, timeout=120)
            print(p.stdout.strip())
            if p.returncode == 1:
                print('VIOLATION property=%s replay=%s' % (prop, path))
                return 1
            if p.returncode == 0:
                print('replay: the recorded input no longer violates the contract on the current tree')
                return 0
            print('UNDECIDED replay-diverged rc=%d %s' % (p.returncode, p.stderr[-500:]))
            return 2
        elif u['backend'] == 'native':
            from .native_backend import replay_native
            return replay_native(prop, path, doc, u, work)
        else:
            from .kani_backend import replay_kani
            return replay_kani(prop, path, doc, u, work)
    finally:
        shutil.rmtree(work, ignore_errors=True)
