"""./check <Cxx> [--tier quick|thorough] [--replay <file>]   (DESIGN.md 3.8)

exit 0  every obligation generated from /repo's current text is discharged
exit 1  VIOLATION property=<id> replay=<path>[ no-failing-input-found]
exit 2  UNDECIDED (anchor lost, unsupported construct, resource limit, machinery self-test failed)
"""
import argparse
import glob
import hashlib
import json
import os
import re
import shutil
import sys
import tempfile
import time

from .rsx import RsxError
from .unit import parse_sidecar, assemble, SidecarError
from . import verus_backend as VB

ROOT = os.path.dirname(os.path.dirname(os.path.abspath(__file__)))


def evidence_dir():
    """evidence/<id>.json is the record of the check on /repo.  A run against a scratch copy (VERIF_REPO=<dir>, used for
    the deliberate property-breaking experiments of DESIGN.md 9) must never overwrite that record: it writes to
    evidence-scratch/ (git-ignored) unless VERIF_EVIDENCE_DIR says otherwise."""
    d = os.environ.get('VERIF_EVIDENCE_DIR')
    if not d:
        from .unit import REPO
        d = os.path.join(ROOT, 'evidence' if os.path.realpath(REPO) == '/repo' else 'evidence-scratch')
    os.makedirs(d, exist_ok=True)
    return d


SCAN = re.compile(r'\b(assume\s*\(|admit\s*\(|external_body|assume_specification|external_type_specification|uninterp|unsafe\b|'
                  r'kani::assume|kani::stub\b|verifier::truncate|external_fn_specification|verifier::external\b|exec_allows_no_decreases_clause)')


def load_units():
    units = {}
    for p in sorted(glob.glob(os.path.join(ROOT, 'units', '*', 'unit.json'))):
        u = json.load(open(p))
        u['dir'] = os.path.dirname(p)
        units[u['name']] = u
    return units


def load_known():
    p = os.path.join(ROOT, 'known_findings.json')
    if os.path.exists(p):
        return json.load(open(p)).get('findings', [])
    return []


class Undecided(Exception):
    pass


def scan_assumptions(asm, sc):
    """every assume-like token must sit in a stub block (trusted border) - never in proof text or
    in extracted code (DESIGN.md 3.7)"""
    found = []
    for ln, (line, o) in enumerate(zip(asm.text.split('\n'), asm.origins), 1):
        code = re.sub(r'//.*', '', line)
        for m in SCAN.finditer(code):
            tok = m.group(1).rstrip('( ')
            if o.kind == 'raw' and o.role == 'stub':
                found.append('%s (trusted border `%s`, %s:%d): %s' % (tok, o.block[:60], os.path.basename(o.where), o.line, ' '.join(code.split())[:100]))
            elif o.kind == 'raw' and o.role == 'attr' and tok == 'exec_allows_no_decreases_clause':
                # an explicit sidecar attribute on one extracted function: its loops carry no decreases clause
                found.append('TERMINATION NOT PROVED (%s, %s:%d): loops of this function have no decreases clause' % (o.block[:80], os.path.basename(o.where), o.line))
            elif o.kind in ('src', 'rule') and tok == 'unsafe':
                found.append('unsafe in extracted code %s:%d' % (o.where, o.line))
            else:
                raise Undecided('assumption-scan: `%s` outside the trusted border at assembled line %d (%s %s:%d)' % (tok, ln, o.kind, o.where, o.line))
    return found


def run_verus_unit(u, tier, seed, work, log, no_fallback=False, prop=None):
    """returns dict(result=VerusResult, asm=..., sidecar=..., extra=...)"""
    sc = parse_sidecar(os.path.join(u['dir'], 'unit.vx'))
    try:
        asm = assemble(sc)
    except RsxError as e:
        if not no_fallback:
            fallback_witness(u, sc, work, tier, str(e), prop)
        raise
    if not asm.selfcheck_ok:
        raise Undecided('%s: assembler self-check failed (assembled text minus insertions != rule-rewritten source tokens)' % u['name'])
    assumptions = scan_assumptions(asm, sc)
    res = VB.run_verus(asm, work, u['name'])
    if res.status == 'undecided' and not no_fallback:
        fallback_witness(u, sc, work, tier, res.reason, prop)
    return {'res': res, 'asm': asm, 'sc': sc, 'assumptions': assumptions}


class FallbackViolation(Exception):
    def __init__(self, unit, failure, asm):
        self.unit, self.failure, self.asm = unit, failure, asm


def fallback_witness(u, sc, work, tier, reason, prop=None):
    """The deductive run is undecided (anchor lost / the restructured code no longer matches the proof text).
    Before giving up, compile the extracted function natively (rules applied, NO contract splices) and run
    the unit's bounded witness search: a concrete input on which the real function violates the executable
    rendering of its contract is a genuine violation and is reported (decided by a bounded check, and said
    so); if none is found the run stays UNDECIDED (exit 2)."""
    if not u.get('witness'):
        return
    wp = u['witness'].get('properties')
    if wp is not None and prop is not None and prop not in wp:
        return      # the witness harness exercises functions this property does not depend on
    from .replay import search_witness
    try:
        plain = assemble(sc, plain_only=True)
    except RsxError:
        return
    w, note = search_witness(u, plain.plain, work, tier, plain.native_items)
    if w is None:
        return
    only_panic = u['witness'].get('panic_only_properties', [])
    if prop in only_panic and 'panic' not in str(w.get('why', '')):
        return
    f = VB.Failure(obligation='%s::contract-on-real-function (bounded native search; deductive run undecided)' % u['name'],
                   message='the verifier run was undecided (%s); the bounded native search on the extracted function found an input that violates the contract: %s'
                           % (' '.join(reason.split())[:200], w.get('why', '')),
                   kind='contract', fn='', where=u['name'], rendered=reason[:3000])
    raise FallbackViolation(u, f, plain)


def thorough_verus(u, base, seed, work, log, prop=None):
    """canaries, mutants, stability.  Returns (info dict); raises Undecided on a degraded check"""
    info = {'canaries': [], 'mutants': [], 'stability': []}
    sc = base['sc']
    from .unit import Extract
    fnp, dfl = u.get('fn_properties'), u.get('default_fn_properties') or u['properties']

    def relevant(path_or_item):
        """multi-property units: canaries and mutants only for the functions this property depends on"""
        if fnp is None or prop is None:
            return True
        nm = path_or_item.split(' :: ')[-1].replace('fn ', '').strip()
        return prop in fnp.get(nm, dfl)
    # canaries: every contracted function, re-verified with `ensures false`, must FAIL
    for part in sc.parts:
        if isinstance(part, Extract) and part.path.split(' :: ')[-1].startswith('fn ') and any(s.kind == 'sig' for s in part.splices) and not part.assume_body and relevant(part.path):
            asm = assemble(sc, canary=part.path)
            r = VB.run_verus(asm, work, u['name'] + '_canary')
            ok = r.status == 'failed' and any(f.kind == 'canary' for f in r.failures)
            info['canaries'].append({'fn': part.path, 'failed_as_expected': ok, 'status': r.status})
            if not ok:
                raise Undecided('%s: canary `ensures false` on %s did not fail (%s %s): the unit\'s assumptions may be contradictory' % (u['name'], part.path, r.status, r.reason[:200]))
    # mutants
    for mp in sorted(glob.glob(os.path.join(u['dir'], 'mutants', '*.json'))):
        m = json.load(open(mp))
        hits = [0]
        if m.get('item') and not relevant(m['item']):
            continue

        def mut(path, text, m=m, hits=hits):
            if m.get('item') and m['item'] not in path:
                return None
            new, n = re.subn(m['find'], m['replace'], text, count=m.get('count', 1), flags=re.S)
            hits[0] += n
            return new
        try:
            asm = assemble(sc, mutate=mut)
        except RsxError as e:
            info['mutants'].append({'mutant': os.path.basename(mp), 'result': 'anchor-lost: %s' % e})
            continue
        if hits[0] == 0:
            info['mutants'].append({'mutant': os.path.basename(mp), 'result': 'pattern-not-found (code changed; mutant skipped)'})
            continue
        r = VB.run_verus(asm, work, u['name'] + '_mut')
        expect = m.get('expect', 'fail')
        if expect == 'fail':
            ok = r.status == 'failed' and any(f.kind in ('contract', 'safety', 'hint') for f in r.failures)
        else:
            ok = r.status == 'verified'
        info['mutants'].append({'mutant': os.path.basename(mp), 'what': m.get('what', ''), 'expect': expect, 'status': r.status,
                                'ok': ok, 'failed_obligations': [f.obligation for f in r.failures][:4]})
        if not ok:
            raise Undecided('%s: mutant %s (%s) expected %s but verus said %s %s' % (u['name'], os.path.basename(mp), m.get('what', ''), expect, r.status, r.reason[:300]))
    # stability: 3 seeds + halved rlimit
    for k in range(3):
        r = VB.run_verus(base['asm'], work, u['name'] + '_stab', seed=(seed * 31 + k * 7 + 1) % 100000)
        info['stability'].append({'seed': (seed * 31 + k * 7 + 1) % 100000, 'status': r.status, 'smt_ms': r.smt_ms})
    r = VB.run_verus(base['asm'], work, u['name'] + '_stab', rlimit=5)
    info['stability'].append({'rlimit': 5, 'status': r.status, 'smt_ms': r.smt_ms})
    if base['res'].status == 'verified' and any(s['status'] != 'verified' for s in info['stability']):
        raise Undecided('%s: unstable proof (default run verified, a reseeded / half-rlimit run did not): %s' % (u['name'], info['stability']))
    return info


def main(argv=None):
    ap = argparse.ArgumentParser()
    ap.add_argument('prop')
    ap.add_argument('--tier', default=os.environ.get('VERIF_TIER', 'quick'))
    ap.add_argument('--replay')
    ap.add_argument('--keep', action='store_true')
    args = ap.parse_args(argv)
    tier = args.tier if args.tier in ('quick', 'thorough') else 'quick'
    seed = int(os.environ.get('VERIF_SEED', '0') or 0)
    prop = args.prop
    units = {n: u for n, u in load_units().items() if prop in u['properties'] or prop in u.get('safety_properties', [])}
    if not units:
        print('no unit serves property %s' % prop)
        return 2
    if args.replay:
        from .replay import do_replay
        return do_replay(prop, args.replay, units)
    t0 = time.time()
    work = tempfile.mkdtemp(prefix='parol-verif.', dir='/var/tmp')
    log = []
    try:
        return _run(prop, units, tier, seed, work, t0)
    except FallbackViolation as fv:
        from .replay import write_replay
        path, found = write_replay(prop, fv.unit, {'asm': fv.asm}, fv.failure, work, tier)
        print('VIOLATION property=%s replay=%s%s' % (prop, path, '' if found else ' no-failing-input-found'))
        print('  ' + fv.failure.message[:600])
        _write_min_evidence(prop, tier, seed, time.time() - t0, fv)
        return 1
    except (RsxError, Undecided, SidecarError) as e:
        print('UNDECIDED property=%s %s' % (prop, e))
        return 2
    finally:
        if not args.keep:
            shutil.rmtree(work, ignore_errors=True)


def _run(prop, units, tier, seed, work, t0):
    known = load_known()
    evidence_units = []
    all_failures = []     # (unit, Failure-like dict)
    undecided = []
    assumptions = []
    obligations = discharged = 0
    bounded = []
    samples = []
    functions = []
    drops = []
    solver_s = 0.0
    checker_cmds = []
    trusted = set()
    extra_info = {}
    undecided_units = []
    for name, u in units.items():
        try:
            if u['backend'] == 'verus':
                # a unit may serve a property with its SAFETY obligations only (panic freedom, termination): the functional
                # clauses of that unit belong to other properties
                safety_only = prop not in u['properties'] and prop in u.get('safety_properties', [])
                base = run_verus_unit(u, tier, seed, work, None, no_fallback=(safety_only and not u.get('witness', {}).get('panic_only_properties')), prop=prop)
                res, asm = base['res'], base['asm']
                if res.status == 'undecided':
                    raise Undecided('%s: %s' % (name, res.reason))
                n_fn = len([f for f in asm.functions if (' fn ' in ' ' + f['item'] or f['item'].startswith('fn ')) and not f.get('mode', '').startswith('signature only')])
                n_obl = asm.clause_count + n_fn            # clauses + one safety group (bounds/overflow/termination) per function
                if u.get('fn_properties') is not None and not safety_only:
                    # a multi-property unit: count only the functions this property depends on
                    fnp_, dfl_ = u['fn_properties'], u.get('default_fn_properties') or u['properties']
                    def _rel(item):
                        nm = item.split(' :: ')[-1].replace('fn ', '').strip()
                        return prop in fnp_.get(nm, dfl_)
                    rel_fns = [f for f in asm.functions if (' fn ' in ' ' + f['item'] or f['item'].startswith('fn ')) and not f.get('mode', '').startswith('signature only') and _rel(f['item'])]
                    n_fn = len(rel_fns)
                    n_obl = sum(asm.clauses_by_fn.get(f['item'], 0) for f in rel_fns) + n_fn
                failed = res.failures
                # a unit that serves several properties names, per function, the properties that depend on it: a failed
                # obligation of a function this property does not depend on is not a violation of THIS property
                fnp, dfl = u.get('fn_properties'), u.get('default_fn_properties')
                if fnp is not None and not safety_only:
                    def _relevant(f):
                        nm = (f.fn or '').split(' :: ')[-1].replace('fn ', '').strip()
                        return prop in fnp.get(nm, dfl or u['properties'])
                    other = [f for f in failed if f.kind not in ('spec-lemma', 'canary') and not _relevant(f)]
                    failed = [f for f in failed if f not in other]
                    if other:
                        extra_info.setdefault(name, {})['failed_obligations_of_functions_this_property_does_not_depend_on'] = [f.obligation for f in other]
                if safety_only:
                    def _is_safety(f):
                        return f.kind == 'safety' or '::debug_assert@' in f.obligation
                    saf = [f for f in failed if _is_safety(f)]
                    functional_fns = {f.fn for f in failed if not _is_safety(f) and f.kind not in ('spec-lemma', 'canary')}
                    amb = [f for f in saf if f.fn in functional_fns]
                    if amb:
                        raise Undecided('%s: a safety obligation of %s fails together with functional obligations of the same function (%s): '
                                        'it cannot be attributed to panic freedom / termination alone' % (name, amb[0].fn, amb[0].obligation))
                    failed = saf + [f for f in failed if f.kind in ('spec-lemma', 'canary')]
                mach = [f for f in failed if f.kind in ('spec-lemma', 'canary')]
                if mach:
                    raise Undecided('%s: a code-independent lemma of the sidecar failed: %s (%s)' % (name, mach[0].obligation, mach[0].message))
                if safety_only:
                    n_fn = len([f for f in asm.functions if (' fn ' in ' ' + f['item'] or f['item'].startswith('fn ')) and not f.get('mode', '').startswith('signature only')])
                    n_obl = n_fn
                failed_keys = {f.obligation for f in failed}
                obligations += n_obl
                discharged += n_obl - len(failed_keys)
                solver_s += res.smt_ms / 1000.0
                checker_cmds.append(res.cmd)
                assumptions += ['%s: %s' % (name, a) for a in base['assumptions']]
                assumptions += ['%s: %s' % (name, a) for a in u.get('assumptions', [])]
                assumptions += ['%s: ASSUMED contract of %s (%d clause(s)%s): %s' % (name, a['fn'], a['clauses'], ', proved in unit ' + a['proved_in'] if a['proved_in'] else '', a['text']) for a in asm.assumed]
                trusted.update(u.get('trusted_base', []))
                functions += [dict(f, unit=name) for f in asm.functions]
                drops += [dict(d, unit=name) for d in asm.drops]
                names_ = _obligation_names(asm, name)
                if safety_only:
                    names_ = [n for n in names_ if '::safety(' in n]
                if u.get('fn_properties') is not None and not safety_only:
                    keep = {f['item'].split(' :: ')[-1].replace('fn ', '').strip() for f in rel_fns}
                    names_ = [n for n in names_ if n.split('::')[0] in keep]
                samples += names_
                for f in failed:
                    all_failures.append((u, base, f))
                evidence_units.append({'unit': name, 'backend': 'verus', 'verus_verified_items': res.verified, 'verus_errors': res.errors,
                                       'spliced_blocks': asm.splice_count, 'contract_clauses': asm.clause_count, 'functions_under_contract': n_fn,
                                       'wall_s': round(res.wall_s, 2), 'smt_ms': res.smt_ms, 'rlimit_used': res.rlimit,
                                       'per_function': res.fn_breakdown, 'source_sha256': asm.sources,
                                       'assembler_selfcheck': asm.selfcheck_ok, 'binds': asm.binds})
                if tier == 'thorough' and res.status == 'verified' and not safety_only:
                    extra_info.setdefault(name, {}).update(thorough_verus(u, base, seed, work, None, prop=prop))
            elif u['backend'] in ('kani', 'native'):
                if u['backend'] == 'kani':
                    from .kani_backend import run_kani_unit
                    kr = run_kani_unit(u, tier, seed, work)
                else:
                    from .native_backend import run_native_unit
                    kr = run_native_unit(u, tier, seed, work)
                if kr['undecided']:
                    raise Undecided('%s: %s' % (name, kr['undecided']))
                obligations += kr['obligations']
                discharged += kr['discharged']
                bounded += kr['bounded']
                solver_s += kr['solver_s']
                checker_cmds.append(kr['cmd'])
                assumptions += ['%s: %s' % (name, a) for a in kr['assumptions']]
                assumptions += ['%s: %s' % (name, a) for a in u.get('assumptions', [])]
                trusted.update(u.get('trusted_base', []))
                functions += kr['functions']
                drops += kr['drops']
                samples += kr['samples']
                for f in kr['failures']:
                    all_failures.append((u, kr, f))
                evidence_units.append(kr['evidence'])
                if kr.get('extra'):
                    extra_info[name] = kr['extra']
                if tier == 'thorough' and not kr['failures'] and u['backend'] == 'kani':
                    from .kani_backend import thorough_kani
                    ti = thorough_kani(u, seed, work)
                    extra_info[name] = ti
                    if ti.get('degraded'):
                        raise Undecided('%s: %s' % (name, ti['degraded']))
            else:
                raise Undecided('unknown backend %s' % u['backend'])
        except (Undecided, RsxError) as e:
            # one unit being undecided must not hide a violation another unit of the same property can decide
            undecided_units.append('%s: %s' % (name, e))

    # ---- triage failures
    violations = []
    known_lines = []
    for u, base, f in all_failures:
        k = _match_known(known, prop, f)
        if k is not None:
            known_lines.append('KNOWN-FINDING: property=%s %s [%s]' % (prop, k['description'], f.obligation))
            continue
        violations.append((u, base, f))
    rc = 0
    os.makedirs(os.path.join(ROOT, 'replays'), exist_ok=True)
    for line in sorted(set(known_lines)):
        print(line)
    from .replay import write_replay
    seen = set()
    # a concrete input found by a bounded native unit also serves the deductive unit that names it in `witness_from`
    donors = {}
    for u, base, f in violations:
        if u['backend'] == 'native' and getattr(f, 'witness', None):
            donors.setdefault(u['name'], (u, f))
    for u, base, f in violations:
        if f.obligation in seen:
            continue
        seen.add(f.obligation)
        donor = donors.get(u.get('witness_from', ''))
        path, found = write_replay(prop, u, base, f, work, tier, donor=donor)
        print('VIOLATION property=%s replay=%s%s' % (prop, path, '' if found else ' no-failing-input-found'))
        print('  failed obligation: %s  [%s] at %s' % (f.obligation, f.message, f.where))
        rc = 1
    wall = time.time() - t0
    ev = {
        'property_id': prop, 'tier': tier, 'seed': seed, 'level': 'proof' if not undecided_units else 'other',
        'coverage': {
            'obligations': obligations, 'discharged': discharged,
            'checker_cmd': ' ; '.join(checker_cmds)[:4000],
            'trusted_base': sorted(trusted),
            'samples': samples[:400],
            'functions_under_contract': functions,
            'units': evidence_units,
            'extraction_drops': drops,
            'bounded_obligations': bounded,
            'solver_time_s': round(solver_s, 3),
            'explanation': 'obligations = contract clauses spliced into the real function text + one safety group (index bounds, '
                           'arithmetic overflow, callee preconditions, termination) per function under contract (Verus units) / one per '
                           'complete Kani harness; bounded harnesses are listed under bounded_obligations and are not counted.',
            'thorough': extra_info,
            'failed_obligations': [{'obligation': f.obligation, 'message': f.message, 'where': f.where} for _, _, f in all_failures],
            'undecided_units': undecided_units,
        },
        'assumptions': assumptions,
        'wall_s': round(wall, 2),
        'violations': len(seen),
    }
    _check_evidence_record(ev, rc, undecided_units)
    with open(os.path.join(evidence_dir(), prop + '.json'), 'w') as fh:
        json.dump(ev, fh, indent=1)
    if rc == 0 and undecided_units:
        for r in undecided_units:
            print('UNDECIDED property=%s %s' % (prop, r))
        return 2
    if rc == 0:
        print('OK property=%s tier=%s obligations=%d discharged=%d bounded=%d wall=%.1fs' % (prop, tier, obligations, discharged, len(bounded), wall))
    elif undecided_units:
        for r in undecided_units:
            print('  (also undecided: %s)' % r[:300])
    return rc


def _check_evidence_record(ev, rc, undecided_units):
    """a quiet run (exit 0) must leave a record that is valid for the proof level: non-zero obligation count (vacuity guard),
    every obligation discharged, a checker command.  Anything else on a quiet run is a machinery error -> exit 2."""
    if rc != 0 or undecided_units:
        return
    c = ev['coverage']
    if ev['level'] != 'proof' or c['obligations'] < 1 or c['discharged'] != c['obligations'] or not c['checker_cmd'].strip() or not c['samples']:
        raise Undecided('evidence record of a quiet run is not a valid proof-level record (obligations=%d discharged=%d)' % (c['obligations'], c['discharged']))


def _write_min_evidence(prop, tier, seed, wall, fv):
    ev = {'property_id': prop, 'tier': tier, 'seed': seed, 'level': 'other',
          'coverage': {'explanation': 'the deductive run was undecided on this tree; a bounded native search on the extracted function found a '
                                      'concrete contract violation, which is reported. Nothing is claimed as proved by this run.',
                       'failed_obligations': [{'obligation': fv.failure.obligation, 'message': fv.failure.message}]},
          'assumptions': [], 'wall_s': round(wall, 2), 'violations': 1}
    json.dump(ev, open(os.path.join(evidence_dir(), prop + '.json'), 'w'), indent=1)


def _match_known(known, prop, f):
    for k in known:
        if k.get('status') == 'known' and k['property'] == prop and k['obligation'] == f.obligation:
            return k
    return None


def _obligation_names(asm, unit):
    """the named obligations of a unit: one per labelled clause line in a splice + safety group per fn"""
    out = []
    assumed_fns = {a['fn'] for a in asm.assumed}
    for line, o in zip(asm.text.split('\n'), asm.origins):
        if o.kind == 'splice' and o.block not in ('ret',) and o.fn not in assumed_fns:
            m = re.search(r'//#\s*(.+?)\s*$', line)
            if m:
                out.append('%s::%s::%s' % (o.fn.split(' :: ')[-1].replace('fn ', ''), o.block, m.group(1)))
    for f in asm.functions:
        last = f['item'].split(' :: ')[-1]
        if f.get('mode', '').startswith('signature only'):
            continue
        if last.startswith('fn '):
            out.append('%s::safety(bounds, overflow, callee preconditions, termination)' % last[3:])
    return out


if __name__ == '__main__':
    sys.exit(main())
