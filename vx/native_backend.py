"""Bounded native checks against the REAL crates (path dependency on /repo): a stand-in for callee contracts
and borders that neither Verus nor Kani can reach.  Always labelled bounded, never counted as proved.

The unit's crate/ is a template (`@REPO@` is replaced by the repository path); it is built offline with the
repository's own toolchain and lock file.  Protocol of the binary:
  <bin> search <args..>   prints `CHECKED\t<clause>\t<cases>` lines, or `BORDER-VIOLATION\t<clause>\t<input json>` and exits 1
  <bin> replay <input>    exits 1 when the recorded input still violates a clause
"""
import os
import shutil
import subprocess
import time

from .unit import REPO
from .kani_backend import KFailure

import hashlib

CACHE = os.environ.get('VERIF_CACHE', '/var/tmp/parol-verif-cache')
# one build cache per repository path: a run against a scratch copy (VERIF_REPO) must never share binaries with a run against /repo
REPO_KEY = hashlib.md5(os.path.realpath(REPO).encode()).hexdigest()[:8]


class _BuildLock:
    """build and private copy are one critical section per cache directory: two runs (of possibly different versions of
    /verif) against the same repository path must not swap binaries between `cargo build` and the copy"""
    def __init__(self, tdir):
        self.path = os.path.join(tdir, '.verif-build.lock')
    def __enter__(self):
        import fcntl
        self.f = open(self.path, 'w')
        fcntl.flock(self.f, fcntl.LOCK_EX)
    def __exit__(self, *a):
        import fcntl
        fcntl.flock(self.f, fcntl.LOCK_UN)
        self.f.close()


def _private_copy(exe, work, name):
    """the binary that was just built is copied into this run's scratch directory, so that a concurrent build in the shared
    cache cannot replace it between build and run"""
    os.makedirs(work, exist_ok=True)
    dst = os.path.join(work, name + '.bin')
    shutil.copy2(exe, dst)
    return dst


def build_native_from_kani_template(u, work):
    """the crate is generated from a Kani unit's template (verbatim files of /repo + appended harness modules) and
    compiled natively with a cargo feature: the SAME assembled text the Kani harnesses run on"""
    import json
    from .kani_backend import build_crate
    kdir = os.path.normpath(os.path.join(u['dir'], '..', u['kani_template']))
    ku = json.load(open(os.path.join(kdir, 'unit.json')))
    ku['dir'] = kdir
    cdir, info = build_crate(ku, os.path.join(work, u['name'] + '_tpl'))
    # the entry point exists only in the native build (cargo kani would trip over a feature-gated bin target)
    os.makedirs(os.path.join(cdir, 'src', 'bin'), exist_ok=True)
    shutil.copy(os.path.join(kdir, 'native_bin_%s.rs' % u['bin']), os.path.join(cdir, 'src', 'bin', u['bin'] + '.rs'))
    tdir = os.path.join(CACHE, 'tpl_' + u['kani_template'] + '-' + REPO_KEY)
    os.makedirs(tdir, exist_ok=True)
    env = dict(os.environ, CARGO_NET_OFFLINE='true', CARGO_TARGET_DIR=tdir)
    t0 = time.time()
    with _BuildLock(tdir):
        p = subprocess.run(['cargo', 'build', '--offline', '--quiet', '--features', u['feature'], '--bin', u['bin']], cwd=cdir,
                           capture_output=True, text=True, env=env, timeout=1800)
        if p.returncode != 0:
            return None, 'native build of the template crate failed: ' + p.stderr[-1500:], time.time() - t0, info
        return _private_copy(os.path.join(tdir, 'debug', u['bin']), work, u['name']), '', time.time() - t0, info


def build_native(u, work):
    if u.get('kani_template'):
        exe, err, t, info = build_native_from_kani_template(u, work)
        u['_tpl_info'] = info
        return exe, err, t
    cdir = os.path.join(work, u['name'] + '_crate')
    if os.path.exists(cdir):
        shutil.rmtree(cdir)
    shutil.copytree(os.path.normpath(os.path.join(u['dir'], u.get('crate_dir', 'crate'))), cdir)
    for root, _, files in os.walk(cdir):
        for fn in files:
            p = os.path.join(root, fn)
            s = open(p).read()
            if '@REPO@' in s:
                open(p, 'w').write(s.replace('@REPO@', REPO))
            # fresh time stamps: cargo decides by mtime whether the cached build script / binary of this package is still
            # valid, and the cache may hold artifacts of ANOTHER version of this template (copytree keeps the old stamps)
            os.utime(p, None)
    lock = os.path.join(REPO, 'Cargo.lock')
    if os.path.exists(lock):
        shutil.copy(lock, os.path.join(cdir, 'Cargo.lock'))
    tdir = os.path.join(CACHE, 'shared-' + REPO_KEY)      # one cache for all native units of this repository path: the real crates are built once
    os.makedirs(tdir, exist_ok=True)
    env = dict(os.environ, CARGO_NET_OFFLINE='true', CARGO_TARGET_DIR=tdir)
    t0 = time.time()
    with _BuildLock(tdir):
        p = subprocess.run(['cargo', 'build', '--offline', '--quiet'], cwd=cdir, capture_output=True, text=True, env=env, timeout=3600)
        if p.returncode != 0 and 'lock file' in p.stderr:
            # the copied lock file may hold more than this crate needs; let cargo prune it offline
            os.remove(os.path.join(cdir, 'Cargo.lock'))
            p = subprocess.run(['cargo', 'build', '--offline', '--quiet'], cwd=cdir, capture_output=True, text=True, env=env, timeout=3600)
        if p.returncode != 0:
            return None, 'native build against /repo failed: ' + p.stderr[-1500:], time.time() - t0
        exe = _private_copy(os.path.join(tdir, 'debug', u.get('bin', u['name'])), work, u['name'])
    return exe, '', time.time() - t0


def run_native_unit(u, tier, seed, work):
    out = {'undecided': None, 'obligations': 0, 'discharged': 0, 'bounded': [], 'solver_s': 0.0, 'failures': [], 'samples': [],
           'assumptions': [], 'functions': [dict(f, unit=u['name']) for f in u.get('functions', [])], 'drops': [], 'cmd': '', 'extra': {}}
    exe, err, bt = build_native(u, work)
    if exe is None:
        out['undecided'] = err
        out['evidence'] = {'unit': u['name'], 'backend': 'native-bounded'}
        return out
    args = str(u['args_thorough'] if tier == 'thorough' else u['args_quick']).split()
    t0 = time.time()
    try:
        p = subprocess.run([exe, 'search'] + args, capture_output=True, text=True, timeout=u.get('timeout_s', 3600))
    except subprocess.TimeoutExpired:
        out['undecided'] = 'native bounded search timed out'
        out['evidence'] = {'unit': u['name'], 'backend': 'native-bounded'}
        return out
    wall = time.time() - t0
    out['cmd'] = 'cargo build --offline (%s) && %s search %s' % ('verbatim files of %s, template of unit %s' % (REPO, u['kani_template']) if u.get('kani_template') else 'path dependency on %s' % REPO, os.path.basename(exe), ' '.join(args))
    if u.get('_tpl_info'):
        out['functions'] += [dict(f, unit=u['name']) for f in u['_tpl_info']['functions']]
        out['drops'] += [dict(d, unit=u['name']) for d in u['_tpl_info']['drops']]
    bound = u.get('bound_text', '') + ' [args: %s]' % ' '.join(args)
    checked = []
    for line in p.stdout.split('\n'):
        parts = line.split('\t')
        if parts[0] == 'CHECKED' and len(parts) >= 3:
            checked.append({'clause': parts[1], 'cases': int(parts[2])})
            out['bounded'].append({'harness': u['name'] + '::' + parts[1], 'what': parts[1], 'bound': bound, 'status': 'verified', 'cases': int(parts[2])})
        elif parts[0] == 'BORDER-VIOLATION' and len(parts) >= 3:
            f = KFailure(obligation='%s::%s' % (u['name'], parts[1]), message='bounded native search on the real crate found a violating input',
                         kind='contract', fn=u.get('function', ''), where=u.get('where', ''), rendered=line)
            f.witness = {'input': parts[2], 'clause': parts[1]}
            f.witness_note = 'input found by exhaustive enumeration against the real crate (%s)' % bound
            out['failures'].append(f)
            out['bounded'].append({'harness': u['name'] + '::' + parts[1], 'what': parts[1], 'bound': bound, 'status': 'failed'})
    if not checked and not out['failures']:
        out['undecided'] = 'native bounded search produced no result (rc=%d): %s' % (p.returncode, (p.stdout + p.stderr)[-600:])
    out['evidence'] = {'unit': u['name'], 'backend': 'native-bounded', 'build_s': round(bt, 1), 'search_s': round(wall, 1), 'checked': checked, 'bound': bound}
    return out


def replay_native(prop, path, doc, u, work):
    exe, err, _ = build_native(u, work)
    if exe is None:
        print('UNDECIDED replay: ' + err)
        return 2
    p = subprocess.run([exe, 'replay', doc['witness']['input']], capture_output=True, text=True, timeout=600)
    print(p.stdout.strip())
    if p.returncode == 1:
        print('VIOLATION property=%s replay=%s' % (prop, path))
        return 1
    if p.returncode == 0:
        return 0
    print('UNDECIDED replay rc=%d %s' % (p.returncode, p.stderr[-300:]))
    return 2
