"""rsx - a small Rust lexer and item locator (DESIGN.md 3.1).

It does not parse Rust; it tokenises (strings, raw strings, chars vs. lifetimes, nested block
comments) and locates *items* by path, plus, inside a function, the signature, the body and every
loop header (by ordinal).  Everything is expressed as byte offsets into the original text, so the
extracted text is the text of /repo, byte for byte.
"""
import re
from dataclasses import dataclass, field
from typing import List, Optional, Tuple


class RsxError(Exception):
    """anchor lost / unsupported construct: maps to exit code 2 (undecided), never a violation"""


@dataclass
class Tok:
    kind: str  # ident | punct | lit | lifetime | comment | doc | ws
    text: str
    start: int
    end: int


_IDENT = re.compile(r'[A-Za-z_][A-Za-z0-9_]*')
_NUM = re.compile(r'[0-9][0-9A-Za-z_]*(\.[0-9][0-9A-Za-z_]*)?')
_PUNCT3 = ('<<=', '>>=', '...', '..=')
_PUNCT2 = ('->', '=>', '::', '==', '!=', '<=', '>=', '&&', '||', '+=', '-=', '*=', '/=', '%=', '^=',
           '&=', '|=', '<<', '>>', '..')


def lex(src: str) -> List[Tok]:
    toks: List[Tok] = []
    i, n = 0, len(src)
    while i < n:
        c = src[i]
        if c.isspace():
            j = i
            while j < n and src[j].isspace():
                j += 1
            toks.append(Tok('ws', src[i:j], i, j))
            i = j
            continue
        if src.startswith('//', i):
            j = src.find('\n', i)
            if j < 0:
                j = n
            text = src[i:j]
            kind = 'doc' if (text.startswith('///') and not text.startswith('////')) or text.startswith('//!') else 'comment'
            toks.append(Tok(kind, text, i, j))
            i = j
            continue
        if src.startswith('/*', i):
            depth, j = 1, i + 2
            while j < n and depth > 0:
                if src.startswith('/*', j):
                    depth += 1
                    j += 2
                elif src.startswith('*/', j):
                    depth -= 1
                    j += 2
                else:
                    j += 1
            text = src[i:j]
            kind = 'doc' if (text.startswith('/**') and not text.startswith('/***') and text != '/**/') or text.startswith('/*!') else 'comment'
            toks.append(Tok(kind, text, i, j))
            i = j
            continue
        # raw strings / byte strings
        m = re.match(r'(b|c)?r(#*)"', src[i:i + 40])
        if m:
            hashes = m.group(2)
            close = '"' + hashes
            j = src.find(close, i + m.end())
            if j < 0:
                raise RsxError('unterminated raw string at %d' % i)
            j += len(close)
            toks.append(Tok('lit', src[i:j], i, j))
            i = j
            continue
        if c == '"' or (c in 'bc' and i + 1 < n and src[i + 1] == '"'):
            j = i + (1 if c == '"' else 2)
            while j < n and src[j] != '"':
                if src[j] == '\\':
                    j += 1
                j += 1
            j += 1
            toks.append(Tok('lit', src[i:j], i, j))
            i = j
            continue
        if c == "'" or (c == 'b' and i + 1 < n and src[i + 1] == "'"):
            k = i + (1 if c == "'" else 2)
            # char literal or lifetime?
            if k < n and src[k] == '\\':
                j = k + 2
                while j < n and src[j] != "'":
                    j += 1
                j += 1
                toks.append(Tok('lit', src[i:j], i, j))
                i = j
                continue
            if k + 1 < n and src[k + 1] == "'" and src[k] != "'":
                j = k + 2
                toks.append(Tok('lit', src[i:j], i, j))
                i = j
                continue
            # multi-byte char literal like 'é'
            m2 = re.match(r"'[^'\\\n]'", src[i:i + 8])
            if m2 and c == "'":
                j = i + m2.end()
                toks.append(Tok('lit', src[i:j], i, j))
                i = j
                continue
            m3 = _IDENT.match(src, k)
            if m3 and c == "'":
                toks.append(Tok('lifetime', src[i:m3.end()], i, m3.end()))
                i = m3.end()
                continue
            raise RsxError('cannot lex quote at %d' % i)
        m = _IDENT.match(src, i)
        if m:
            # raw identifiers r#ident
            toks.append(Tok('ident', m.group(0), i, m.end()))
            i = m.end()
            continue
        m = _NUM.match(src, i)
        if m:
            j = m.end()
            # do not swallow the range operator `0..n`
            text = src[i:j]
            if '.' in text and src.startswith('..', i + text.index('.')):
                j = i + text.index('.')
            toks.append(Tok('lit', src[i:j], i, j))
            i = j
            continue
        for p in _PUNCT3:
            if src.startswith(p, i):
                toks.append(Tok('punct', p, i, i + 3))
                i += 3
                break
        else:
            for p in _PUNCT2:
                if src.startswith(p, i):
                    toks.append(Tok('punct', p, i, i + 2))
                    i += 2
                    break
            else:
                toks.append(Tok('punct', c, i, i + 1))
                i += 1
    return toks


def code_tokens(toks: List[Tok]) -> List[Tok]:
    return [t for t in toks if t.kind not in ('ws', 'comment', 'doc')]


def sig_tokens(src: str) -> List[str]:
    """token texts without trivia - used for 'same token stream' self checks"""
    return [t.text for t in code_tokens(lex(src))]


_OPEN = {'(': ')', '[': ']', '{': '}'}
_CLOSE = {')', ']', '}'}


def match_close(ct: List[Tok], i: int) -> int:
    """ct[i] is an opening bracket; returns index of its closing bracket"""
    depth = 0
    for j in range(i, len(ct)):
        t = ct[j]
        if t.kind == 'punct':
            if t.text in _OPEN:
                depth += 1
            elif t.text in _CLOSE:
                depth -= 1
                if depth == 0:
                    return j
    raise RsxError('unbalanced bracket at offset %d' % ct[i].start)


@dataclass
class Item:
    kind: str           # fn struct enum type const static impl mod trait use macro union
    name: str           # for impl: normalised header (without generics parameter list)
    start: int          # byte offset, including attributes and doc comments
    end: int            # byte offset one past the item
    kw: int             # index into code tokens of the keyword
    first: int          # index into code tokens of the first token of the item (attrs included)
    last: int           # index into code tokens of the last token of the item
    body_open: Optional[int] = None   # code token index of '{' (fn/impl/mod/trait/struct/enum)
    body_close: Optional[int] = None


_ITEM_KW = {'fn', 'struct', 'enum', 'type', 'const', 'static', 'impl', 'mod', 'trait', 'use', 'union', 'macro_rules'}
_QUALIFIERS = {'pub', 'const', 'unsafe', 'async', 'extern', 'default'}


def _norm(s: str) -> str:
    return re.sub(r'\s+', '', s)


class Source:
    def __init__(self, path: str, text: str):
        self.path = path
        self.text = text
        self.toks = lex(text)
        self.ct = code_tokens(self.toks)

    # ---- item scanning -------------------------------------------------------------------
    def items(self, lo: int = 0, hi: Optional[int] = None) -> List[Item]:
        """items directly inside the code-token range [lo, hi)"""
        ct = self.ct
        if hi is None:
            hi = len(ct)
        out = []
        i = lo
        while i < hi:
            first = i
            # attributes
            while i < hi and ct[i].text == '#':
                j = i + 1
                if j < hi and ct[j].text == '!':
                    # inner attribute: belongs to the enclosing module, not to the next item
                    i = match_close(ct, j + 1) + 1
                    first = i
                    continue
                if j < hi and ct[j].text == '[':
                    i = match_close(ct, j) + 1
                else:
                    break
            # visibility / qualifiers
            while i < hi and ct[i].kind == 'ident' and ct[i].text in _QUALIFIERS:
                if ct[i].text == 'const' and i + 1 < hi and ct[i + 1].text not in ('fn', 'unsafe', 'async', 'extern'):
                    break  # const item
                i += 1
                if i < hi and ct[i].text == '(' and ct[i - 1].text == 'pub':
                    i = match_close(ct, i) + 1
                if i < hi and ct[i].kind == 'lit' and ct[i - 1].text == 'extern':
                    i += 1
            if i >= hi:
                break
            t = ct[i]
            if t.kind == 'ident' and t.text in _ITEM_KW:
                kw = i
                kind = t.text
                if kind == 'macro_rules':
                    kind = 'macro'
                    # macro_rules ! name { ... }
                    j = i + 3
                    name = ct[i + 2].text
                    end = match_close(ct, j)
                    if end + 1 < hi and ct[end + 1].text == ';':
                        end += 1
                    out.append(self._mk(kind, name, first, kw, end))
                    i = end + 1
                    continue
                if kind in ('fn', 'struct', 'enum', 'type', 'const', 'static', 'mod', 'trait', 'union'):
                    name = ct[i + 1].text
                    if name == 'mut' and kind == 'static':
                        name = ct[i + 2].text
                elif kind == 'impl':
                    name = ''
                else:
                    name = ''
                # find end
                j = i + 1
                body_open = body_close = None
                if kind in ('type', 'const', 'static', 'use'):
                    while j < hi and ct[j].text != ';':
                        if ct[j].text in _OPEN:
                            j = match_close(ct, j)
                        j += 1
                    end = j
                else:
                    while j < hi:
                        tx = ct[j].text
                        if tx == ';':
                            break
                        if tx == '{':
                            body_open = j
                            body_close = match_close(ct, j)
                            j = body_close
                            break
                        if tx in ('(', '['):
                            j = match_close(ct, j)
                        j += 1
                    end = j
                    if kind == 'struct' and body_open is None:
                        pass  # tuple / unit struct ending in ';'
                if kind == 'impl':
                    hdr_lo = i + 1
                    if ct[hdr_lo].text == '<':
                        # skip the generic parameter list
                        depth = 0
                        k = hdr_lo
                        while k < hi:
                            if ct[k].text == '<':
                                depth += 1
                            elif ct[k].text == '>':
                                depth -= 1
                                if depth == 0:
                                    break
                            elif ct[k].text == '>>':
                                depth -= 2
                                if depth <= 0:
                                    break
                            k += 1
                        hdr_lo = k + 1
                    hdr_hi = body_open if body_open is not None else end
                    hdr = self.text[ct[hdr_lo].start:ct[hdr_hi - 1].end] if hdr_hi > hdr_lo else ''
                    # cut a where clause
                    hdr = re.split(r'\bwhere\b', hdr)[0]
                    name = _norm(hdr)
                it = self._mk(kind, name, first, kw, end)
                it.body_open, it.body_close = body_open, body_close
                out.append(it)
                i = end + 1
                continue
            # item-level macro invocation or something unknown: skip to ';' or balanced block
            j = i
            while j < hi:
                tx = ct[j].text
                if tx == ';':
                    break
                if tx in _OPEN:
                    j = match_close(ct, j)
                    if tx == '{':
                        break
                j += 1
            out.append(self._mk('other', '', first, i, min(j, hi - 1)))
            i = j + 1
        return out

    def _mk(self, kind, name, first, kw, last) -> Item:
        ct = self.ct
        # extend start backwards over doc comments / comments directly attached? Only docs:
        start = ct[first].start
        # include preceding doc comments (they are trivia tokens)
        ti = self._tok_index(start)
        k = ti - 1
        while k >= 0 and self.toks[k].kind in ('ws', 'doc'):
            if self.toks[k].kind == 'doc':
                start = self.toks[k].start
            elif self.toks[k].text.count('\n') > 1:
                break
            k -= 1
        return Item(kind, name, start, ct[last].end, kw, first, last)

    def _tok_index(self, offset: int) -> int:
        lo, hi = 0, len(self.toks) - 1
        while lo < hi:
            mid = (lo + hi) // 2
            if self.toks[mid].end <= offset:
                lo = mid + 1
            else:
                hi = mid
        return lo

    def find(self, path: List[Tuple[str, str]]) -> Item:
        """path: [(kind, name), ...] e.g. [('impl','Recovery'),('fn','levenshtein_distance')]"""
        lo, hi = 0, len(self.ct)
        item = None
        for depth, (kind, name) in enumerate(path):
            cands = [it for it in self.items(lo, hi) if it.kind == kind and it.name == _norm(name)]
            if not cands:
                raise RsxError('anchor-lost: %s %s not found in %s' % (kind, name, self.path))
            if len(cands) > 1 and kind != 'impl':
                # cfg-duplicated items: take the first one that is not #[cfg(test)]
                cands = [c for c in cands if '#[cfg(test)]' not in self.text[c.start:self.ct[c.kw].start]] or cands
            item = cands[0]
            if kind == 'impl' and len(cands) > 1 and depth + 1 < len(path):
                # several impl blocks with the same header: pick the one holding the next element
                nk, nn = path[depth + 1]
                for c in cands:
                    if any(x.kind == nk and x.name == _norm(nn) for x in self.items(c.body_open + 1, c.body_close)):
                        item = c
                        break
            if depth + 1 < len(path):
                if item.body_open is None:
                    raise RsxError('anchor-lost: %s %s has no body in %s' % (kind, name, self.path))
                lo, hi = item.body_open + 1, item.body_close
        return item

    def line_of(self, offset: int) -> int:
        return self.text.count('\n', 0, offset) + 1


def parse_path(spec: str) -> List[Tuple[str, str]]:
    """'impl Recovery :: fn levenshtein_distance' -> [('impl','Recovery'),('fn','levenshtein_distance')]"""
    out = []
    for part in spec.split(' :: '):
        part = part.strip()
        kind, _, name = part.partition(' ')
        out.append((kind, name.strip()))
    return out


# ---- function anatomy (on an extracted, possibly rewritten, item text) ---------------------------

@dataclass
class Loop:
    ordinal: int
    kw: str
    header_start: int     # offset of the keyword (or label) in the item text
    brace: int            # offset of the '{' opening the loop body
    close: int            # offset of the matching '}'
    header_text: str


@dataclass
class FnAnatomy:
    sig_start: int        # offset of first token of the signature (after attrs)
    body_open: int        # offset of '{'
    body_close: int       # offset of the final '}'
    arrow: Optional[int]  # offset of '->' at depth 0 in the signature
    ret_start: Optional[int]
    ret_end: Optional[int]   # return type text span (up to `where` or the body)
    where_start: Optional[int]
    loops: List[Loop] = field(default_factory=list)


def fn_anatomy(text: str) -> FnAnatomy:
    toks = lex(text)
    ct = code_tokens(toks)
    # find `fn`
    i = 0
    while i < len(ct):
        if ct[i].text == '#' and i + 1 < len(ct) and ct[i + 1].text == '[':
            i = match_close(ct, i + 1) + 1
            continue
        break
    sig_start = ct[i].start
    k = i
    while k < len(ct) and ct[k].text != 'fn':
        k += 1
    if k >= len(ct):
        raise RsxError('not a function item')
    # signature: find body '{' at depth 0 (parens/brackets tracked; the generic parameter list skipped)
    j = k + 2
    if j < len(ct) and ct[j].text == '<':
        depth = 0
        while j < len(ct):
            if ct[j].text == '<':
                depth += 1
            elif ct[j].text == '>':
                depth -= 1
            elif ct[j].text == '>>':
                depth -= 2
            j += 1
            if depth <= 0:
                break
    arrow = ret_start = ret_end = where_start = None
    while j < len(ct):
        tx = ct[j].text
        if tx in ('(', '['):
            j = match_close(ct, j) + 1
            continue
        if tx == '->' and arrow is None:
            arrow = ct[j].start
            ret_start = ct[j + 1].start
        if tx == 'where' and where_start is None:
            where_start = ct[j].start
            if arrow is not None and ret_end is None:
                ret_end = ct[j - 1].end
        if tx == '{':
            break
        if tx == ';':
            raise RsxError('function has no body')
        j += 1
    body_open_i = j
    if arrow is not None and ret_end is None:
        ret_end = ct[j - 1].end
    body_close_i = match_close(ct, body_open_i)
    an = FnAnatomy(sig_start, ct[body_open_i].start, ct[body_close_i].start, arrow, ret_start, ret_end, where_start)
    # loops
    n = 0
    j = body_open_i + 1
    while j < body_close_i:
        t = ct[j]
        if t.kind == 'ident' and t.text in ('for', 'while', 'loop'):
            if t.text == 'for' and ct[j + 1].text == '<':
                j += 1
                continue
            hs = t.start
            if j >= 2 and ct[j - 1].text == ':' and ct[j - 2].kind == 'lifetime':
                hs = ct[j - 2].start
            q = j + 1
            while q < body_close_i:
                tx = ct[q].text
                if tx in ('(', '['):
                    q = match_close(ct, q) + 1
                    continue
                if tx == '{':
                    # a block in EXPRESSION position of the header (`while let P = { .. } {`, `for x in { .. } {`):
                    # it directly follows an operator / `=` / `in`; the loop body is a later brace
                    prev = ct[q - 1].text
                    if t.text != 'loop' and (prev in ('=', 'in', '&&', '||', '!', '==', '!=', '<', '>', '<=', '>=', '+', '-', '*', '/', ',', '(')):
                        q = match_close(ct, q) + 1
                        continue
                    break
                q += 1
            close = match_close(ct, q)
            an.loops.append(Loop(n, t.text, hs, ct[q].start, ct[close].start,
                                 ' '.join(x.text for x in ct[j:q])))
            n += 1
        j += 1
    return an


# ---- closures (for `@closure N` annotations) -----------------------------------------------------------

@dataclass
class Closure:
    ordinal: int
    bar_open: int         # offset of the opening `|` (or of `||`)
    params_end: int       # offset one past the closing `|`
    params: List[Tuple[str, int]]   # (identifier, offset one past it) for simple identifier parameters
    body_start: int
    body_end: int         # offset one past the body expression
    block: bool           # body is a `{ .. }` block


_CLOSURE_PREV = {'(', ',', '=', 'move', '=>', '{', ';', 'return'}


def closures(text: str) -> List[Closure]:
    """closures of a function item, in source order (heuristic: a `|`/`||` directly after `(` `,` `=` `move` `=>` `{` `;`)"""
    ct = code_tokens(lex(text))
    out = []
    i = 0
    while i < len(ct):
        t = ct[i]
        if t.kind == 'punct' and t.text in ('|', '||') and i > 0 and ct[i - 1].text in _CLOSURE_PREV:
            params = []
            if t.text == '||':
                pe = i
            else:
                pe = i + 1
                while pe < len(ct) and ct[pe].text != '|':
                    if ct[pe].text in _OPEN:
                        pe = match_close(ct, pe)
                    pe += 1
                if pe >= len(ct):
                    raise RsxError('unterminated closure parameter list at %d' % t.start)
                # simple identifier params (possibly `mut x`), split at top-level commas
                seg = ct[i + 1:pe]
                cur = []
                depth = 0
                for x in seg + [None]:
                    if x is None or (x.text == ',' and depth == 0):
                        ids = [y for y in cur if y.kind == 'ident' and y.text != 'mut']
                        if len(ids) == 1 and all(y.kind == 'ident' for y in cur):
                            params.append((ids[0].text, ids[0].end))
                        elif cur:
                            params.append(('', cur[-1].end))
                        cur = []
                        continue
                    if x.text in _OPEN:
                        depth += 1
                    elif x.text in _CLOSE:
                        depth -= 1
                    cur.append(x)
            b = pe + 1
            if b < len(ct) and ct[b].text == '->':
                # already annotated return type: body is the block after it
                while b < len(ct) and ct[b].text != '{':
                    b += 1
            if b >= len(ct):
                break
            if ct[b].text == '{':
                be = match_close(ct, b)
                out.append(Closure(len(out), t.start, ct[pe].end, params, ct[b].start, ct[be].end, True))
            else:
                e = b
                depth = 0
                while e < len(ct):
                    x = ct[e].text
                    if x in _OPEN:
                        e = match_close(ct, e)
                    elif x in _CLOSE or x in (',', ';'):
                        break
                    e += 1
                out.append(Closure(len(out), t.start, ct[pe].end, params, ct[b].start, ct[e - 1].end, False))
        i += 1
    return out
