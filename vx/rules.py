"""The closed list of mechanical rewrite rules (DESIGN.md 3.2).

Every rule is a function  (item_text) -> list of Edit(start, end, new_text, rule, note).
Edits are span replacements on the *original* item text; they are applied right-to-left, so the
offsets of one rule never depend on another.  An edit that lies inside a span deleted by another
edit (a `format!` inside a deleted `trace!`) is dropped.  Everything applied is logged and ends up
in evidence under `extraction_drops`.
"""
import re
from dataclasses import dataclass
from typing import List

from .rsx import lex, code_tokens, match_close, RsxError


@dataclass
class Edit:
    start: int
    end: int
    new: str
    rule: str
    note: str


_ASSIGN = {'=', '+=', '-=', '*=', '/=', '%=', '^=', '&=', '|=', '<<=', '>>='}


def _macro_calls(text, name):
    """yield (i_start_tok, i_close_tok, ct) for `name ! ( ... )` invocations"""
    ct = code_tokens(lex(text))
    i = 0
    while i + 2 < len(ct):
        if ct[i].kind == 'ident' and ct[i].text == name and ct[i + 1].text == '!' and ct[i + 2].text in ('(', '[', '{'):
            # not a path segment like foo::trace!
            close = match_close(ct, i + 2)
            yield i, close, ct
            i = close + 1
            continue
        i += 1


def r1_trace(text: str) -> List[Edit]:
    """R1: delete statements `trace!(...);` (logging only)."""
    out = []
    for i, close, ct in _macro_calls(text, 'trace'):
        args = ct[i + 3:close]
        for k, a in enumerate(args):
            if a.kind == 'punct' and a.text in _ASSIGN:
                raise RsxError('unsupported-construct: R1 trace! argument contains an assignment')
            if a.text == 'mut' and k > 0 and args[k - 1].text == '&':
                raise RsxError('unsupported-construct: R1 trace! argument takes &mut')
        end = ct[close].end
        if close + 1 < len(ct) and ct[close + 1].text == ';':
            end = ct[close + 1].end
        else:
            raise RsxError('unsupported-construct: R1 trace! used as an expression')
        # swallow the rest of the line if it is only whitespace
        m = re.match(r'[ \t]*\n', text[end:])
        s = ct[i].start
        ls = text.rfind('\n', 0, s) + 1
        if m and text[ls:s].strip() == '':
            s, end = ls, end + m.end()
        out.append(Edit(s, end, '', 'R1', 'deleted ' + ' '.join(text[ct[i].start:ct[close].end].split())[:80]))
    return out


def r2_debug_assert(text: str) -> List[Edit]:
    """R2: debug_assert!(c, ..) -> assert(c);  debug_assert_eq!(a, b, ..) -> assert(a == b);"""
    out = []
    for name, op in (('debug_assert', None), ('debug_assert_eq', '=='), ('debug_assert_ne', '!=')):
        for i, close, ct in _macro_calls(text, name):
            # split top level args
            args, depth, cur = [], 0, []
            for t in ct[i + 3:close]:
                if t.text in ('(', '[', '{'):
                    depth += 1
                elif t.text in (')', ']', '}'):
                    depth -= 1
                if t.text == ',' and depth == 0:
                    args.append(cur)
                    cur = []
                else:
                    cur.append(t)
            if cur:
                args.append(cur)

            def span(a):
                return text[a[0].start:a[-1].end]
            if op is None:
                cond = span(args[0])
            else:
                cond = '(%s) %s (%s)' % (span(args[0]), op, span(args[1]))
            out.append(Edit(ct[i].start, ct[close].end, 'assert(%s)' % cond, 'R2',
                            '%s!(..) -> assert(%s)' % (name, ' '.join(cond.split())[:60])))
    return out


def r4_clone_from(text: str) -> List[Edit]:
    """R4: a.clone_from(&b) -> a = b.clone()"""
    out = []
    for m in re.finditer(r'([A-Za-z_][\w\.]*)\.clone_from\(\s*&\s*([A-Za-z_][\w\.]*)\s*\)', text):
        out.append(Edit(m.start(), m.end(), '%s = %s.clone()' % (m.group(1), m.group(2)), 'R4',
                        '%s -> assignment of clone' % m.group(0)))
    return out


def r5_format(text: str) -> List[Edit]:
    """R5: format!(...) -> fmt_opaque()  (message text is not part of any claimed property)"""
    out = []
    for i, close, ct in _macro_calls(text, 'format'):
        for a in ct[i + 3:close]:
            if a.kind == 'punct' and a.text in _ASSIGN:
                raise RsxError('unsupported-construct: R5 format! argument contains an assignment')
        out.append(Edit(ct[i].start, ct[close].end, 'fmt_opaque()', 'R5',
                        'format!(..) -> fmt_opaque() [%d arg tokens]' % (close - i - 3)))
    return out


_STD_DERIVES = ('Debug', 'Clone', 'Copy', 'PartialEq', 'Eq', 'PartialOrd', 'Ord', 'Hash', 'Default')


def r6_attrs_docs(text: str, keep_attrs=(), keep_std_derives=False) -> List[Edit]:
    """R6: drop #[derive(..)], #[inline..], #[must_use], #[deprecated..], #[ts(..)], #[serde(..)],
    #[allow(..)], #[doc..] attributes and doc comments on extracted items."""
    out = []
    toks = lex(text)
    for t in toks:
        if t.kind == 'doc':
            end = t.end
            m = re.match(r'[ \t]*\n', text[end:])
            ls = text.rfind('\n', 0, t.start) + 1
            s = t.start
            if m and text[ls:s].strip() == '':
                s, end = ls, end + m.end()
            out.append(Edit(s, end, '', 'R6', 'doc comment'))
    ct = code_tokens(toks)
    i = 0
    while i + 1 < len(ct):
        if ct[i].text == '#' and ct[i + 1].text == '[':
            close = match_close(ct, i + 1)
            name = ct[i + 2].text
            if name in ('derive', 'inline', 'must_use', 'deprecated', 'ts', 'serde', 'allow', 'doc', 'non_exhaustive', 'default') and name not in keep_attrs:
                if name == 'derive' and keep_std_derives:
                    # native rendering only: keep the std-derivable traits so that code using ==, clone(), default() still compiles
                    names = [t.text for t in ct[i + 4:close - 1] if t.kind == 'ident' and t.text in _STD_DERIVES]
                    out.append(Edit(ct[i].start, ct[close].end, '#[derive(%s)]' % ', '.join(names) if names else '', 'R6',
                                    'derive list reduced to std traits (native rendering)'))
                    i = close + 1
                    continue
                s, end = ct[i].start, ct[close].end
                m = re.match(r'[ \t]*\n', text[end:])
                ls = text.rfind('\n', 0, s) + 1
                if m and text[ls:s].strip() == '':
                    s, end = ls, end + m.end()
                out.append(Edit(s, end, '', 'R6', 'attribute ' + ' '.join(text[ct[i].start:ct[close].end].split())[:70]))
            i = close + 1
            continue
        i += 1
    return out


def r3_for_range(text: str, loop, ordinal: int) -> List[Edit]:
    """R3: `for X in A..B {` -> `let mut itN: usize = A; let endN: usize = B; while itN < endN {`
    followed, directly after the `{`, by `let X = itN; itN += 1;` (increment at the TOP of the body so
    that `continue`/`break` keep their meaning)."""
    hdr = text[loop.header_start:loop.brace]
    m = re.match(r'for\s+([A-Za-z_]\w*)\s+in\s+(.+?)\.\.(?!=)(.+?)\s*$', hdr, re.S)
    if not m:
        raise RsxError('unsupported-construct: R3 needs `for IDENT in A..B`, got: %s' % hdr.strip())
    var, a, b = m.group(1), m.group(2).strip(), m.group(3).strip()
    it, end = 'it%d' % ordinal, 'end%d' % ordinal
    new_hdr = 'let mut %s: usize = %s; let %s: usize = %s;\n        while %s < %s ' % (it, a, end, b, it, end)
    return [
        Edit(loop.header_start, loop.brace, new_hdr, 'R3', 'for %s in %s..%s -> while with counter %s' % (var, a, b, it)),
        Edit(loop.brace + 1, loop.brace + 1, ' let %s = %s; %s += 1;' % (var, it, it), 'R3', 'loop variable binding + increment at top of body'),
    ]


def apply_edits(text: str, edits: List[Edit]):
    """apply right-to-left; drop edits nested in a deleted span; returns (new_text, applied)"""
    edits = sorted(edits, key=lambda e: (e.start, -(e.end - e.start)))
    kept: List[Edit] = []
    for e in edits:
        if kept and kept[-1].end > kept[-1].start and e.start >= kept[-1].start and e.end <= kept[-1].end and e.start < kept[-1].end:
            continue  # nested in a replaced span
        if kept and e.start < kept[-1].end:
            raise RsxError('unsupported-construct: overlapping rewrite rules at offset %d' % e.start)
        kept.append(e)
    out = text
    for e in reversed(kept):
        out = out[:e.start] + e.new + out[e.end:]
    return out, kept


RULES = {'R1': r1_trace, 'R2': r2_debug_assert, 'R4': r4_clone_from, 'R5': r5_format, 'R6': r6_attrs_docs}
