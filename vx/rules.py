"""The closed list of mechanical rewrite rules (DESIGN.md 3.2).

Every rule is a function  (item_text) -> list of Edit(start, end, new_text, rule, note).
Edits are span replacements on the *original* item text; they are applied right-to-left, so the
offsets of one rule never depend on another.  An edit that lies inside a span deleted by another
edit (a `format!` inside a deleted `trace!`) is dropped.  Everything applied is logged and ends up
in evidence under `extraction_drops`.
"""
import re
from dataclasses import dataclass
from typing import List

from .rsx import lex, code_tokens, match_close, RsxError


@dataclass
class Edit:
    start: int
    end: int
    new: str
    rule: str
    note: str


_ASSIGN = {'=', '+=', '-=', '*=', '/=', '%=', '^=', '&=', '|=', '<<=', '>>='}


def _macro_calls(text, name):
    """yield (i_start_tok, i_close_tok, ct) for `name ! ( ... )` invocations"""
    ct = code_tokens(lex(text))
    i = 0
    while i + 2 < len(ct):
        if ct[i].kind == 'ident' and ct[i].text == name and ct[i + 1].text == '!' and ct[i + 2].text in ('(', '[', '{'):
            # not a path segment like foo::trace!
            close = match_close(ct, i + 2)
            yield i, close, ct
            i = close + 1
            continue
        i += 1


def r1_trace(text: str) -> List[Edit]:
    """R1: delete statements `trace!(...);` (logging only)."""
    out = []
    for i, close, ct in _macro_calls(text, 'trace'):
        args = ct[i + 3:close]
        for k, a in enumerate(args):
            if a.kind == 'punct' and a.text in _ASSIGN:
                raise RsxError('unsupported-construct: R1 trace! argument contains an assignment')
            if a.text == 'mut' and k > 0 and args[k - 1].text == '&':
                raise RsxError('unsupported-construct: R1 trace! argument takes &mut')
        end = ct[close].end
        if close + 1 < len(ct) and ct[close + 1].text == ';':
            end = ct[close + 1].end
        else:
            raise RsxError('unsupported-construct: R1 trace! used as an expression')
        # swallow the rest of the line if it is only whitespace
        m = re.match(r'[ \t]*\n', text[end:])
        s = ct[i].start
        ls = text.rfind('\n', 0, s) + 1
        if m and text[ls:s].strip() == '':
            s, end = ls, end + m.end()
        out.append(Edit(s, end, '', 'R1', 'deleted ' + ' '.join(text[ct[i].start:ct[close].end].split())[:80]))
    return out


def r2_debug_assert(text: str) -> List[Edit]:
    """R2: debug_assert!(c, ..) -> assert(c);  debug_assert_eq!(a, b, ..) -> assert(a == b);"""
    out = []
    for name, op in (('debug_assert', None), ('debug_assert_eq', '=='), ('debug_assert_ne', '!=')):
        for i, close, ct in _macro_calls(text, name):
            # split top level args
            args, depth, cur = [], 0, []
            for t in ct[i + 3:close]:
                if t.text in ('(', '[', '{'):
                    depth += 1
                elif t.text in (')', ']', '}'):
                    depth -= 1
                if t.text == ',' and depth == 0:
                    args.append(cur)
                    cur = []
                else:
                    cur.append(t)
            if cur:
                args.append(cur)

            def span(a):
                return text[a[0].start:a[-1].end]
            if op is None:
                cond = span(args[0])
            else:
                cond = '(%s) %s (%s)' % (span(args[0]), op, span(args[1]))
            out.append(Edit(ct[i].start, ct[close].end, 'assert(%s)' % cond, 'R2',
                            '%s!(..) -> assert(%s)' % (name, ' '.join(cond.split())[:60])))
    return out


def r4_clone_from(text: str) -> List[Edit]:
    """R4: a.clone_from(&b) -> a = b.clone()"""
    out = []
    for m in re.finditer(r'([A-Za-z_][\w\.]*)\.clone_from\(\s*&\s*([A-Za-z_][\w\.]*)\s*\)', text):
        out.append(Edit(m.start(), m.end(), '%s = %s.clone()' % (m.group(1), m.group(2)), 'R4',
                        '%s -> assignment of clone' % m.group(0)))
    return out


def r5_format(text: str) -> List[Edit]:
    """R5: format!(...) -> fmt_opaque()  (message text is not part of any claimed property)"""
    out = []
    for i, close, ct in _macro_calls(text, 'format'):
        for a in ct[i + 3:close]:
            if a.kind == 'punct' and a.text in _ASSIGN:
                raise RsxError('unsupported-construct: R5 format! argument contains an assignment')
        out.append(Edit(ct[i].start, ct[close].end, 'fmt_opaque()', 'R5',
                        'format!(..) -> fmt_opaque() [%d arg tokens]' % (close - i - 3)))
    return out


_STD_DERIVES = ('Debug', 'Clone', 'Copy', 'PartialEq', 'Eq', 'PartialOrd', 'Ord', 'Hash', 'Default')


def r6_attrs_docs(text: str, keep_attrs=(), keep_std_derives=False) -> List[Edit]:
    """R6: drop #[derive(..)], #[inline..], #[must_use], #[deprecated..], #[ts(..)], #[serde(..)],
    #[allow(..)], #[doc..] attributes and doc comments on extracted items."""
    out = []
    toks = lex(text)
    for t in toks:
        if t.kind == 'doc':
            end = t.end
            m = re.match(r'[ \t]*\n', text[end:])
            ls = text.rfind('\n', 0, t.start) + 1
            s = t.start
            if m and text[ls:s].strip() == '':
                s, end = ls, end + m.end()
            out.append(Edit(s, end, '', 'R6', 'doc comment'))
    ct = code_tokens(toks)
    i = 0
    while i + 1 < len(ct):
        if ct[i].text == '#' and ct[i + 1].text == '[':
            close = match_close(ct, i + 1)
            name = ct[i + 2].text
            if name in ('derive', 'inline', 'must_use', 'deprecated', 'ts', 'serde', 'allow', 'doc', 'non_exhaustive', 'default', 'builder', 'error') and name not in keep_attrs:
                if name == 'derive' and keep_std_derives:
                    # native rendering only: keep the std-derivable traits so that code using ==, clone(), default() still compiles
                    names = [t.text for t in ct[i + 4:close - 1] if t.kind == 'ident' and t.text in _STD_DERIVES]
                    out.append(Edit(ct[i].start, ct[close].end, '#[derive(%s)]' % ', '.join(names) if names else '', 'R6',
                                    'derive list reduced to std traits (native rendering)'))
                    i = close + 1
                    continue
                s, end = ct[i].start, ct[close].end
                m = re.match(r'[ \t]*\n', text[end:])
                ls = text.rfind('\n', 0, s) + 1
                if m and text[ls:s].strip() == '':
                    s, end = ls, end + m.end()
                out.append(Edit(s, end, '', 'R6', 'attribute ' + ' '.join(text[ct[i].start:ct[close].end].split())[:70]))
            i = close + 1
            continue
        i += 1
    return out


def r3_for_range(text: str, loop, ordinal: int) -> List[Edit]:
    """R3: `for X in A..B {` -> `let mut itN: usize = A; let endN: usize = B; while itN < endN {`
    followed, directly after the `{`, by `let X = itN; itN += 1;` (increment at the TOP of the body so
    that `continue`/`break` keep their meaning)."""
    hdr = text[loop.header_start:loop.brace]
    m = re.match(r'for\s+([A-Za-z_]\w*)\s+in\s+(.+?)\.\.(?!=)(.+?)\s*$', hdr, re.S)
    if not m:
        raise RsxError('unsupported-construct: R3 needs `for IDENT in A..B`, got: %s' % hdr.strip())
    var, a, b = m.group(1), m.group(2).strip(), m.group(3).strip()
    it, end = 'it%d' % ordinal, 'end%d' % ordinal
    new_hdr = 'let mut %s: usize = %s; let %s: usize = %s;\n        while %s < %s ' % (it, a, end, b, it, end)
    return [
        Edit(loop.header_start, loop.brace, new_hdr, 'R3', 'for %s in %s..%s -> while with counter %s' % (var, a, b, it)),
        Edit(loop.brace + 1, loop.brace + 1, ' let %s = %s; %s += 1;' % (var, it, it), 'R3', 'loop variable binding + increment at top of body'),
    ]


def r7_enumerate(text: str, loop, ordinal: int) -> List[Edit]:
    """R7: `for (I, X) in E.iter().enumerate() {` -> `let mut itN: usize = 0; while itN < E.len() {` followed,
    directly after the `{`, by `let I = itN; let X = &E[itN]; itN += 1;` - the lowering of slice::Iter + Enumerate
    (yields (i, &E[i]) for i in 0..E.len(); E cannot change during the loop because the original borrows it)."""
    hdr = text[loop.header_start:loop.brace]
    m = re.match(r'for\s*\(\s*([A-Za-z_]\w*)\s*,\s*([A-Za-z_]\w*)\s*\)\s+in\s+(.+?)\s*\.\s*iter\s*\(\s*\)\s*\.\s*enumerate\s*\(\s*\)\s*$', hdr, re.S)
    if not m:
        raise RsxError('unsupported-construct: R7 needs `for (I, X) in E.iter().enumerate()`, got: %s' % hdr.strip())
    iv, xv, e = m.group(1), m.group(2), ' '.join(m.group(3).split())
    it = 'it%d' % ordinal
    new_hdr = 'let mut %s: usize = 0;\n        while %s < %s.len() ' % (it, it, e)
    return [
        Edit(loop.header_start, loop.brace, new_hdr, 'R7', 'for (%s, %s) in %s.iter().enumerate() -> while with counter %s' % (iv, xv, e, it)),
        Edit(loop.brace + 1, loop.brace + 1, ' let %s = %s; let %s = &%s[%s]; %s += 1;' % (iv, it, xv, e, it, it), 'R7', 'loop variable bindings + increment at top of body'),
    ]


def r8_refcell(text: str, names) -> List[Edit]:
    """R8: interior-mutability erasure for the listed parameters: `P: Rc<RefCell<T>>` -> `P: &mut T`,
    `P.borrow_mut()` / `P.borrow()` -> `P`, `P.clone()` -> `&mut *P`.  Dropped: the dynamic borrow check of RefCell
    (a double borrow would panic at run time) - every guard in the covered functions is a temporary that ends with its
    statement; aliasing through other Rc handles during the call is assumed absent."""
    out = []
    ct = code_tokens(lex(text))
    # local form: `let P = Rc::new(RefCell::new(P));` -> `let mut P = P;` (the by-value parameter P becomes the owned local);
    # for such a name `P.clone()` becomes `&mut P`
    local = set()
    for i, t in enumerate(ct):
        if t.text == 'let' and i + 15 < len(ct) and ct[i + 1].text in names:
            seq = [x.text for x in ct[i + 2:i + 16]]
            if seq == ['=', 'Rc', '::', 'new', '(', 'RefCell', '::', 'new', '(', ct[i + 1].text, ')', ')', ';'][:13] + seq[13:] and seq[12] == ';':
                local.add(ct[i + 1].text)
                out.append(Edit(t.start, ct[i + 14].end, 'let mut %s = %s;' % (ct[i + 1].text, ct[i + 1].text), 'R8',
                                'let %s = Rc::new(RefCell::new(%s)) -> let mut %s = %s' % ((ct[i + 1].text,) * 4)))
    skip_until = -1
    for i, t in enumerate(ct):
        if t.kind != 'ident' or t.text not in names:
            continue
        if t.text in local and i >= 1 and ct[i - 1].text == 'let':
            continue
        if t.text in local and i >= 10 and [x.text for x in ct[i - 10:i]] == ['let', t.text, '=', 'Rc', '::', 'new', '(', 'RefCell', '::', 'new'][:10] :
            continue
        nx = [x.text for x in ct[i + 1:i + 7]]
        if nx[:6] == [':', '&', 'Rc', '<', 'RefCell', '<']:
            # `P: &Rc<RefCell<T>>` -> `P: &mut T`
            k0 = ct[i + 4].start
            depth, k = 0, k0
            while k < len(text):
                if text[k] == '<':
                    depth += 1
                elif text[k] == '>' and text[k - 1] != '-':
                    depth -= 1
                    if depth == 0:
                        break
                k += 1
            inner_start = ct[i + 7].start
            inner = text[inner_start:text.rfind('>', inner_start, k)]
            out.append(Edit(ct[i + 2].start, k + 1, '&mut ' + inner.strip(), 'R8', '%s: &Rc<RefCell<T>> -> &mut T' % t.text))
        elif t.text in local and i >= 1 and ct[i - 1].text == '&' and (i + 1 >= len(ct) or ct[i + 1].text != '.'):
            # `&P` handed to a callee that takes `&Rc<RefCell<T>>` -> `&mut P`
            out.append(Edit(ct[i - 1].start, t.end, '&mut ' + t.text, 'R8', '&%s -> &mut %s' % (t.text, t.text)))
        elif nx[:5] == [':', 'Rc', '<', 'RefCell', '<']:
            # character-level angle matching from the `<` after `Rc`
            k0 = ct[i + 3].start
            depth, k = 0, k0
            while k < len(text):
                if text[k] == '<':
                    depth += 1
                elif text[k] == '>' and text[k - 1] != '-':
                    depth -= 1
                    if depth == 0:
                        break
                k += 1
            inner_start = ct[i + 6].start
            # inner type = text between `RefCell<` and its closing `>` (the char before the final `>` of Rc)
            inner = text[inner_start:k - 1] if text[k - 1] == '>' else text[inner_start:k]
            # allow whitespace between the two closers
            inner = text[inner_start:text.rfind('>', inner_start, k)]
            j_end = k + 1
            out.append(Edit(ct[i + 2].start, j_end, '&mut ' + inner.strip(), 'R8', '%s: Rc<RefCell<T>> -> &mut T' % t.text))
        elif nx[:4] == ['.', 'borrow_mut', '(', ')'] or nx[:4] == ['.', 'borrow', '(', ')']:
            if i > 0 and ct[i - 1].text == '.':
                continue
            out.append(Edit(t.end, ct[i + 4].end, '', 'R8', '%s.%s() -> %s' % (t.text, nx[1], t.text)))
        elif nx[:4] == ['.', 'clone', '(', ')']:
            if i > 0 and ct[i - 1].text == '.':
                continue
            if t.text in local:
                out.append(Edit(t.start, ct[i + 4].end, '&mut ' + t.text, 'R8', '%s.clone() -> &mut %s' % (t.text, t.text)))
            else:
                out.append(Edit(t.start, ct[i + 4].end, '&mut *' + t.text, 'R8', '%s.clone() -> &mut *%s' % (t.text, t.text)))
    return out


def r9_str_slice(text: str, names) -> List[Edit]:
    """R9: `&S[A..B]` (S one of the listed &str variables) -> `str_slice(S, A, B)`; str_slice is a border function
    (stubs) requiring A <= B; the char-boundary / length precondition of str indexing is NOT checked."""
    out = []
    ct = code_tokens(lex(text))
    for i, t in enumerate(ct):
        if t.text == '&' and i + 2 < len(ct) and ct[i + 1].kind == 'ident' and ct[i + 1].text in names and ct[i + 2].text == '[':
            close = match_close(ct, i + 2)
            depth, cut = 0, None
            for j in range(i + 3, close):
                if ct[j].text in ('(', '[', '{'):
                    depth += 1
                elif ct[j].text in (')', ']', '}'):
                    depth -= 1
                elif ct[j].text == '..' and depth == 0:
                    cut = j
            if cut is None or cut == i + 3 or cut == close - 1:
                raise RsxError('unsupported-construct: R9 needs `&S[A..B]`')
            a = text[ct[i + 3].start:ct[cut - 1].end]
            b = text[ct[cut + 1].start:ct[close - 1].end]
            out.append(Edit(t.start, ct[close].end, 'str_slice(%s, %s, %s)' % (ct[i + 1].text, a, b), 'R9', '&%s[A..B] -> str_slice(%s, A, B)' % (ct[i + 1].text, ct[i + 1].text)))
    return out


def r10_inner_use(text: str) -> List[Edit]:
    """R10: `use path;` statements inside a function body are deleted (name resolution only; the assembled file
    defines the names at top level)."""
    out = []
    ct = code_tokens(lex(text))
    # first `{` = body
    depth = 0
    for i, t in enumerate(ct):
        if t.text == '{':
            depth += 1
        elif t.text == '}':
            depth -= 1
        elif t.text == 'use' and depth >= 1 and i > 0 and ct[i - 1].text in ('{', ';', '}'):
            j = i
            while j < len(ct) and ct[j].text != ';':
                j += 1
            s, end = t.start, ct[j].end
            m = re.match(r'[ \t]*\n', text[end:])
            ls = text.rfind('\n', 0, s) + 1
            if m and text[ls:s].strip() == '':
                s, end = ls, end + m.end()
            out.append(Edit(s, end, '', 'R10', 'inner `%s` deleted' % ' '.join(text[t.start:ct[j].end].split())))
        elif t.text == 'super' and depth >= 1 and i + 2 < len(ct) and ct[i + 1].text == '::' and ct[i + 2].kind == 'ident' \
                and (i == 0 or ct[i - 1].text != '::'):
            # `super::NAME` -> `NAME`: the assembled file is one flat module
            out.append(Edit(t.start, ct[i + 2].start, '', 'R10', 'path prefix `super::` dropped before %s' % ct[i + 2].text))
    return out


def pub_fields(text: str) -> List[Edit]:
    """field visibility of a struct -> `pub` (Verus needs public fields in public specs; no executable effect in a
    single-file crate)"""
    out = []
    ct = code_tokens(lex(text))
    k = 0
    while k < len(ct) and ct[k].text != '{':
        if ct[k].text in ('(', '['):
            k = match_close(ct, k)
        k += 1
    if k >= len(ct):
        return out
    close = match_close(ct, k)
    i = k + 1
    while i < close:
        # attributes
        while i < close and ct[i].text == '#':
            i = match_close(ct, i + 1) + 1
        if i >= close:
            break
        st = i
        if ct[i].text == 'pub':
            i += 1
            if ct[i].text == '(':
                i = match_close(ct, i) + 1
        if ct[i].kind == 'ident' and ct[i + 1].text == ':':
            if st == i:
                out.append(Edit(ct[i].start, ct[i].start, 'pub ', 'R6', 'field %s made pub' % ct[i].text))
            elif text[ct[st].start:ct[i].start].strip() != 'pub':
                out.append(Edit(ct[st].start, ct[i].start, 'pub ', 'R6', 'field %s: %s -> pub' % (ct[i].text, ' '.join(text[ct[st].start:ct[i].start].split()))))
        # skip to next top-level comma
        depth = 0
        while i < close:
            x = ct[i].text
            if x in ('(', '[', '{'):
                i = match_close(ct, i)
            elif x == '<':
                depth += 1
            elif x == '>':
                depth -= 1
            elif x == '>>':
                depth -= 2
            elif x == ',' and depth <= 0:
                i += 1
                break
            i += 1
    return out


def r12_static_str(text: str) -> List[Edit]:
    """R12: in a `const` item, `&str` -> `&'static str` (the elided lifetime of a const is 'static; Verus wants it
    written)"""
    out = []
    for m in re.finditer(r'&\s*str\b', text):
        out.append(Edit(m.start(), m.end(), "&'static str", 'R12', "const type &str -> &'static str"))
    return out


def r13_let_chain(text: str) -> List[Edit]:
    """R13: `if let P = E && C { BODY }` (no `else`) -> `if let P = E { if C { BODY } }` - the let-chain lowering; only
    applied when no else branch follows (then the two forms are equivalent)."""
    out = []
    ct = code_tokens(lex(text))
    i = 0
    while i + 1 < len(ct):
        if ct[i].text == 'if' and ct[i + 1].text == 'let':
            # header up to the body `{` at depth 0 (blocks in expression position do not occur in the covered code)
            j = i + 2
            amp = None
            depth = 0
            while j < len(ct):
                x = ct[j].text
                if x in ('(', '['):
                    j = match_close(ct, j)
                elif x == '&&' and amp is None:
                    amp = j
                elif x == '{':
                    break
                j += 1
            if amp is not None and j < len(ct):
                close = match_close(ct, j)
                if close + 1 < len(ct) and ct[close + 1].text == 'else':
                    raise RsxError('unsupported-construct: R13 let chain with an else branch')
                out.append(Edit(ct[amp].start, ct[amp].end, '{ if', 'R13', 'let chain `if let P = E && C` -> nested if'))
                out.append(Edit(ct[close].end, ct[close].end, ' }', 'R13', 'closing brace of the nested if'))
            i = j
        i += 1
    return out


def apply_edits(text: str, edits: List[Edit]):
    """apply right-to-left; drop edits nested in a deleted span; returns (new_text, applied)"""
    edits = sorted(edits, key=lambda e: (e.start, -(e.end - e.start)))
    kept: List[Edit] = []
    for e in edits:
        if kept and kept[-1].end > kept[-1].start and e.start >= kept[-1].start and e.end <= kept[-1].end and e.start < kept[-1].end:
            continue  # nested in a replaced span
        if kept and e.start < kept[-1].end:
            raise RsxError('unsupported-construct: overlapping rewrite rules at offset %d' % e.start)
        kept.append(e)
    out = text
    for e in reversed(kept):
        out = out[:e.start] + e.new + out[e.end:]
    return out, kept


def r14_drain_all(text: str) -> List[Edit]:
    """R14: `X.drain(..).collect()` -> `vec_drain_all(&mut X)` (an external function of the unit's stubs whose contract says:
    the result holds exactly the old elements in order, X is left empty).  Dropped: nothing executable - the iterator pair
    drain/collect is outside the installed Verus and is replaced by its (trusted) meaning."""
    out = []
    for m in re.finditer(r'((?:self\s*\.\s*)?[A-Za-z_]\w*(?:\s*\.\s*[A-Za-z_]\w*)*)\s*\.\s*drain\s*\(\s*\.\.\s*\)\s*\.\s*collect\s*\(\s*\)', text):
        out.append(Edit(m.start(), m.end(), 'vec_drain_all(&mut %s)' % ''.join(m.group(1).split()), 'R14', '%s.drain(..).collect() -> vec_drain_all(&mut ..)' % ''.join(m.group(1).split())))
    return out


def r15_position(text: str) -> List[Edit]:
    """R15: `X.iter().position(CLOSURE)` -> `slice_position(X, CLOSURE)` (an external function of the unit's stubs whose contract
    is the meaning of `position`: the first index at which the closure yields true, None if there is none; the closure gets an
    explicit `ensures` through a @closure annotation)."""
    out = []
    for m in re.finditer(r'((?:self\s*\.\s*)?[A-Za-z_]\w*(?:\s*\.\s*[A-Za-z_]\w*)*)\s*\.\s*iter\s*\(\s*\)\s*\.\s*position\s*\(', text):
        x = ''.join(m.group(1).split())
        out.append(Edit(m.start(), m.end(), 'slice_position(%s, ' % x, 'R15', '%s.iter().position(f) -> slice_position(%s, f)' % (x, x)))
    return out


RULES = {'R15': r15_position, 'R14': r14_drain_all, 'R1': r1_trace, 'R2': r2_debug_assert, 'R4': r4_clone_from, 'R5': r5_format, 'R6': r6_attrs_docs, 'R10': r10_inner_use, 'R12': r12_static_str, 'R13': r13_let_chain}
