"""Sidecar parser + assembler for function-mode (Verus) units (DESIGN.md 3.1).

A sidecar (`units/<unit>/unit.vx`) is a list of directives.  Contract text is only ever INSERTED
into the extracted source (between signature and body, between a loop header and its `{`, on its
own lines before/after an anchored statement); executable tokens change only through rules.py.
"""
import hashlib
import os
import re
from dataclasses import dataclass, field
from typing import Dict, List, Optional, Tuple

from . import rules as R
from .rsx import Source, RsxError, parse_path, fn_anatomy, sig_tokens

REPO = os.environ.get('VERIF_REPO', '/repo')


class SidecarError(Exception):
    pass


@dataclass
class Splice:
    kind: str                 # sig | loop | before | after | body_start
    arg: str                  # loop ordinal / regex
    text: str
    line: int                 # line in the sidecar
    occurrence: int = 0


@dataclass
class Extract:
    file: str
    path: str
    rules: List[str] = field(default_factory=list)
    r3: List[int] = field(default_factory=list)
    ret: Optional[str] = None
    splices: List[Splice] = field(default_factory=list)
    binds: List[Tuple[str, str, str]] = field(default_factory=list)   # (NAME, regex, default)
    dropbounds: List[str] = field(default_factory=list)
    fingerprints: Dict[int, str] = field(default_factory=dict)
    line: int = 0
    vis: Optional[str] = None
    optional: bool = False
    r7: List[int] = field(default_factory=list)          # loop ordinals lowered by R7 (enumerate)
    r8: List[str] = field(default_factory=list)          # parameters whose Rc<RefCell<..>> is erased (R8)
    r9: List[str] = field(default_factory=list)          # &str variables whose range indexing becomes str_slice (R9)
    pubfields: bool = False
    attrs: List[str] = field(default_factory=list)       # verifier attributes put above the item
    iternames: Dict[int, str] = field(default_factory=dict)   # loop ordinal -> ghost iterator name (`for x in NAME: e`)
    closure_ann: Dict[int, Tuple[str, int]] = field(default_factory=dict)   # closure ordinal -> (annotation, sidecar line)
    assume_body: bool = False                            # body dropped, contract of @sig ASSUMED (trusted border)
    proved_in: Optional[str] = None                      # `<unit dir>`: the assumed @sig clauses must occur verbatim in that unit's @sig of the same fn


@dataclass
class Raw:
    label: str
    text: str
    line: int
    role: str = 'spec'        # spec | stub | witness | glue


@dataclass
class Sidecar:
    name: str
    path: str
    property: str = ''
    uses: List[str] = field(default_factory=list)
    parts: list = field(default_factory=list)       # Raw | Extract
    mutants: list = field(default_factory=list)


def parse_sidecar(path: str) -> Sidecar:
    sc = Sidecar(os.path.basename(os.path.dirname(path)), path)
    lines = open(path).read().split('\n')
    i = 0
    cur_ex: Optional[Extract] = None
    cur_sp: Optional[Splice] = None

    def flush_sp():
        nonlocal cur_sp
        if cur_sp is not None:
            cur_sp.text = cur_sp.text.rstrip('\n') + '\n'
            cur_ex.splices.append(cur_sp)
            cur_sp = None

    while i < len(lines):
        ln = lines[i]
        s = ln.strip()
        if cur_ex is None:
            if s.startswith('@unit '):
                sc.name = s[6:].strip()
            elif s.startswith('@property '):
                sc.property = s[10:].strip()
            elif s.startswith('@use '):
                sc.uses.append(s[5:].strip())
            elif s.startswith('@raw') or s.startswith('@stub') or s.startswith('@witness') or s.startswith('@glue'):
                role = {'@raw': 'spec', '@stu': 'stub', '@wit': 'witness', '@glu': 'glue'}[s[:4]]
                label = s.split(None, 1)[1] if ' ' in s else ''
                j = i + 1
                buf = []
                while j < len(lines) and lines[j].strip() != '@end':
                    buf.append(lines[j])
                    j += 1
                if j >= len(lines):
                    raise SidecarError('%s:%d: unterminated block' % (path, i + 1))
                sc.parts.append(Raw(label, '\n'.join(buf) + '\n', i + 2, role))
                i = j
            elif s.startswith('@include '):
                args = s.split()
                p = os.path.join(os.path.dirname(path), args[1])
                role = args[2] if len(args) > 2 else 'spec'
                sc.parts.append(Raw(args[1], open(p).read(), 1, role))
                sc.parts[-1].file = p
            elif s.startswith('@extract ') or s.startswith('@extract? '):
                opt = s.startswith('@extract? ')
                spec = s.split(None, 1)[1]
                f, _, p = spec.partition(' :: ')
                cur_ex = Extract(f.strip(), p.strip(), line=i + 1, optional=opt)
            elif s == '' or s.startswith('#'):
                pass
            else:
                raise SidecarError('%s:%d: unexpected line outside a block: %s' % (path, i + 1, s))
        else:
            if s.startswith('@') and not s.startswith('@@'):
                flush_sp()
                if s == '@endextract':
                    sc.parts.append(cur_ex)
                    cur_ex = None
                elif s.startswith('@rules'):
                    cur_ex.rules += s.split()[1:]
                elif s.startswith('@r3'):
                    cur_ex.r3 += [int(x) for x in s.split()[1:]]
                elif s.startswith('@r7'):
                    cur_ex.r7 += [int(x) for x in s.split()[1:]]
                elif s.startswith('@r8'):
                    cur_ex.r8 += s.split()[1:]
                elif s.startswith('@r9'):
                    cur_ex.r9 += s.split()[1:]
                elif s == '@pubfields':
                    cur_ex.pubfields = True
                elif s == '@assume_body':
                    cur_ex.assume_body = True
                elif s.startswith('@proved_in '):
                    cur_ex.proved_in = s.split()[1]
                elif s.startswith('@attr '):
                    cur_ex.attrs.append(s[6:].strip())
                elif s.startswith('@itername '):
                    cur_ex.iternames[int(s.split()[1])] = s.split()[2]
                elif s.startswith('@closure '):
                    m = re.match(r'@closure\s+(\d+)\s+(.*)$', s)
                    cur_ex.closure_ann[int(m.group(1))] = (m.group(2).strip(), i + 1)
                elif s.startswith('@ret '):
                    cur_ex.ret = s[5:].strip()
                elif s.startswith('@vis '):
                    cur_ex.vis = s[5:].strip()
                elif s.startswith('@dropbound '):
                    cur_ex.dropbounds.append(s[11:].strip())
                elif s.startswith('@bind '):
                    m = re.match(r'@bind\s+(\w+)\s+/(.*)/\s+default\s+(.*)$', s)
                    if not m:
                        raise SidecarError('%s:%d: bad @bind' % (path, i + 1))
                    cur_ex.binds.append((m.group(1), m.group(2), m.group(3)))
                elif s.startswith('@sig'):
                    cur_sp = Splice('sig', '', '', i + 2)
                elif s.startswith('@body_start'):
                    cur_sp = Splice('body_start', '', '', i + 2)
                elif s.startswith('@loop_start ') or s.startswith('@loop_end ') or s.startswith('@before_loop ') or s.startswith('@after_loop '):
                    parts = s.split()
                    cur_sp = Splice(parts[0][1:], parts[1], '', i + 2)
                elif s.startswith('@loop '):
                    parts = s.split(None, 2)
                    cur_sp = Splice('loop', parts[1], '', i + 2)
                    if len(parts) > 2:
                        cur_ex.fingerprints[int(parts[1])] = parts[2].strip()
                elif s.startswith('@before ') or s.startswith('@after '):
                    m = re.match(r'@(before|after)\s+/(.*)/(?:\s+#(\d+))?\s*$', s)
                    if not m:
                        raise SidecarError('%s:%d: bad anchor' % (path, i + 1))
                    cur_sp = Splice(m.group(1), m.group(2), '', i + 2, int(m.group(3) or 0))
                else:
                    raise SidecarError('%s:%d: unknown directive %s' % (path, i + 1, s))
            else:
                if cur_sp is not None:
                    cur_sp.text += ln + '\n'
                elif s and not s.startswith('#'):
                    raise SidecarError('%s:%d: text outside a splice' % (path, i + 1))
        i += 1
    if cur_ex is not None:
        raise SidecarError('%s: unterminated @extract' % path)
    for ex in [x for x in sc.parts if isinstance(x, Extract) and x.proved_in]:
        _check_proved_in(path, ex)
    return sc


def _clauses_of(text):
    """normalised top-level clauses of a requires/ensures splice"""
    body = re.sub(r'//[^\n]*', '', text)
    body = re.sub(r'(?<![.\w])(requires|ensures)\b', ',', body)
    return {re.sub(r'\s+', '', c) for c in _split_top(body, angle=False) if c.strip()}


def _check_proved_in(path, ex):
    """cross-unit modularity: a contract ASSUMED here must be, clause for clause, part of the contract PROVED in the
    named unit for the same function (else the two units have drifted apart -> undecided, never an alarm)"""
    other = os.path.join(os.path.dirname(os.path.dirname(path)), ex.proved_in, 'unit.vx')
    osc = parse_sidecar(other)
    fn = ex.path.split(' :: ')[-1]
    cand = [x for x in osc.parts if isinstance(x, Extract) and x.path.split(' :: ')[-1] == fn and not x.assume_body]
    if not cand:
        raise SidecarError('%s: @proved_in %s: %s is not under contract there' % (path, ex.proved_in, fn))
    have = set()
    for sp in cand[0].splices:
        if sp.kind == 'sig':
            have |= _clauses_of(sp.text)
    for sp in ex.splices:
        if sp.kind == 'sig':
            # a (single-line) clause labelled `//# (assumed ...` is an explicit extra assumption of this unit: it is exempt from the
            # literal check (and is reported as assumed like every clause of an @assume_body contract)
            own = '\n'.join(l for l in sp.text.split('\n') if '//# (assumed' not in l)
            missing = _clauses_of(own) - have
            if missing:
                raise SidecarError('%s: clause(s) assumed for %s are not proved in unit %s: %s' % (path, fn, ex.proved_in, sorted(missing)))


# ---- assembling ----------------------------------------------------------------------------------

@dataclass
class LineOrigin:
    kind: str          # src | splice | raw | rule | frame
    where: str         # file path (src) / sidecar path (splice, raw)
    line: int          # line in that file
    fn: str = ''       # extracted item path
    block: str = ''    # splice block name: sig | loop#N | before(/re/) ...
    role: str = ''


@dataclass
class Assembled:
    text: str
    origins: List[LineOrigin]               # one per output line (1-based index - 1)
    sources: Dict[str, str]                 # file -> sha256
    drops: List[dict]                       # rule applications
    functions: List[dict]                   # extracted items (path, file, lines, sha256 of text)
    splice_count: int
    clause_count: int
    plain: str = ''                         # the same text without any splice (rules applied): the native rendering
    binds: Dict[str, str] = field(default_factory=dict)
    selfcheck_ok: bool = True
    assumed: List[dict] = field(default_factory=list)   # @assume_body contracts
    clauses_by_fn: Dict[str, int] = field(default_factory=dict)
    native_items: Dict[str, str] = field(default_factory=dict)   # item path -> native rendering (rules applied, real bodies, std derives)


class _Builder:
    def __init__(self):
        self.chunks: List[Tuple[str, LineOrigin]] = []

    def add(self, text: str, origin_fn):
        """origin_fn(k) -> LineOrigin for the k-th line of `text`"""
        self.chunks.append((text, origin_fn))

    def finish(self):
        out = []
        origins = []
        cur_line = ''
        cur_origin = None
        for text, ofn in self.chunks:
            segs = text.split('\n')
            for k, seg in enumerate(segs):
                if k > 0:
                    out.append(cur_line)
                    origins.append(cur_origin)
                    cur_line, cur_origin = '', None
                if seg.strip() and (cur_origin is None or cur_line.strip() == ''):
                    cur_origin = ofn(k)
                cur_line += seg
        out.append(cur_line)
        origins.append(cur_origin)
        origins = [o if o is not None else LineOrigin('frame', '', 0) for o in origins]
        return '\n'.join(out), origins


def _count_clauses(text: str) -> int:
    """number of top-level comma separated clauses in a requires/ensures/invariant splice, or 1 for
    proof hints"""
    body = re.sub(r'//[^\n]*', '', text)
    body = re.sub(r'\|[^|]*\|', ' Q ', body)      # quantifier / closure binders (and `||`) hold no clause separators
    if not re.search(r'(?<![.\w])(requires|ensures|invariant|invariant_except_break|decreases)\b', body):
        return 1
    n, depth = 0, 0
    pending = False
    for tok in re.finditer(r'(?<![.\w])(requires|ensures|invariant_except_break|invariant|decreases)\b|[(\[{]|[)\]}]|,|\S', body):
        t = tok.group(0)
        if t in ('requires', 'ensures', 'invariant', 'invariant_except_break', 'decreases') and depth == 0:
            if pending:
                n += 1
            pending = False
        elif t in '([{':
            depth += 1
            pending = True
        elif t in ')]}':
            depth -= 1
        elif t == ',' and depth == 0:
            if pending:
                n += 1
            pending = False
        else:
            pending = True
    if pending:
        n += 1
    return n


def extract_item(ex: Extract, cache: Dict[str, Source]):
    fpath = os.path.join(REPO, ex.file)
    if fpath not in cache:
        if not os.path.exists(fpath):
            raise RsxError('anchor-lost: file %s missing' % ex.file)
        cache[fpath] = Source(fpath, open(fpath).read())
    src = cache[fpath]
    item = src.find(parse_path(ex.path))
    text = src.text[item.start:item.end]
    # keep leading indentation of the first line for readability
    ls = src.text.rfind('\n', 0, item.start) + 1
    if src.text[ls:item.start].strip() == '':
        text = src.text[ls:item.end]
        start = ls
    else:
        start = item.start
    return src, item, text, start


def assemble(sc: Sidecar, mutate=None, canary: Optional[str] = None, plain_only: bool = False) -> Assembled:
    """mutate: optional function (extract_path, rewritten_text) -> rewritten_text, used by the mutant
    self-test; canary: extract path that gets `ensures false` appended to its sig splice."""
    b = _Builder()
    cache: Dict[str, Source] = {}
    drops, functions = [], []
    splice_count = clause_count = 0
    plain_parts = []
    assumed = []        # contracts assumed via @assume_body (trusted border), per function
    clauses_by_fn = {}
    native_items = {}
    native_over = {}    # index into plain_parts -> text for the NATIVE rendering (std derives kept)
    all_binds = {}
    selfcheck_ok = True

    hdr = 'use vstd::prelude::*;\n' + ''.join('use %s\n' % u for u in sc.uses) + 'verus! {\n\n'
    b.add(hdr, lambda k: LineOrigin('frame', sc.path, 0))
    plain_parts.append(''.join('use %s\n' % u for u in sc.uses))

    for part in sc.parts:
        if isinstance(part, Raw):
            where = getattr(part, 'file', sc.path)
            base = part.line
            b.add(part.text + '\n', (lambda base, where, role, label: lambda k: LineOrigin('raw', where, base + k, block=label, role=role))(base, where, part.role, part.label))
            if part.role == 'glue':
                plain_parts.append(part.text + '\n')
            continue
        ex: Extract = part
        try:
            src, item, text, start = extract_item(ex, cache)
        except RsxError:
            if ex.optional:
                continue
            raise
        first_line = src.line_of(start)
        # ---- rules (edits on the original item text)
        edits = []
        plain_type_edits = None
        for r in ex.rules:
            if r == 'R3':
                continue
            if r not in R.RULES:
                raise SidecarError('unknown rule %s' % r)
            if r == 'R6' and parse_path(ex.path)[-1][0] in ('struct', 'enum'):
                # the NATIVE rendering keeps the std-derivable traits (==, clone(), default() must still compile there)
                plain_type_edits = [e for rr in ex.rules if rr in R.RULES and rr != 'R6' for e in R.RULES[rr](text)] + R.r6_attrs_docs(text, keep_std_derives=True)
                if plain_only:
                    edits += R.r6_attrs_docs(text, keep_std_derives=True)
                    continue
            edits += R.RULES[r](text)
        is_fn = parse_path(ex.path)[-1][0] == 'fn'
        if ex.r3:
            an0 = fn_anatomy(text)
            for o in ex.r3:
                if o >= len(an0.loops):
                    raise RsxError('anchor-lost: loop#%d not found in %s' % (o, ex.path))
                edits += R.r3_for_range(text, an0.loops[o], o)
        if ex.r7:
            an0 = fn_anatomy(text)
            for o in ex.r7:
                if o >= len(an0.loops):
                    raise RsxError('anchor-lost: loop#%d not found in %s' % (o, ex.path))
                edits += R.r7_enumerate(text, an0.loops[o], o)
        if ex.r8:
            edits += R.r8_refcell(text, ex.r8)
        if ex.r9:
            edits += R.r9_str_slice(text, ex.r9)
        if ex.pubfields:
            edits += R.pub_fields(text)
        if ex.assume_body:
            an0 = fn_anatomy(text)
            edits.append(R.Edit(an0.body_open, an0.body_close + 1, '{ unimplemented!() }', 'ASSUMED',
                                'body of %s dropped: the contract spliced at its signature is ASSUMED here (trusted border)' % ex.path))
            for mm in re.finditer(r'(?<=[(,\s])mut\s+(?=(self\b|[a-z_]\w*\s*:))', text[an0.sig_start:an0.body_open]):
                edits.append(R.Edit(an0.sig_start + mm.start(), an0.sig_start + mm.end(), '', 'ASSUMED', '`mut` of a by-value parameter dropped from the signature'))
        for bnd in ex.dropbounds:
            m = re.search(re.escape(bnd), text)
            if not m:
                raise RsxError('anchor-lost: bound `%s` not found in %s' % (bnd, ex.path))
            # `T: Display` -> `T`
            name = bnd.split(':')[0].strip()
            edits.append(R.Edit(m.start(), m.end(), name, 'R6', 'trait bound `%s` dropped' % bnd))
        if ex.vis is not None:
            m = re.search(r'(pub(\([^)]*\))?\s+)?(?=(const\s+)?(fn|struct|enum|type)\b)', text)
            if m:
                edits.append(R.Edit(m.start(), m.end(), ex.vis + ' ' if ex.vis else '', 'R6', 'visibility -> `%s` (no executable effect)' % ex.vis))
        rewritten, applied = R.apply_edits(text, edits)
        # native rendering of this item: the same rules, but the REAL body of an assumed function and the std derives of a type
        if plain_type_edits is not None and ex.vis is None and not ex.dropbounds:
            native_items[ex.path] = R.apply_edits(text, plain_type_edits + (R.pub_fields(text) if ex.pubfields else []))[0]
        elif ex.assume_body:
            native_items[ex.path] = R.apply_edits(text, [e for e in edits if e.rule != 'ASSUMED'])[0]
        else:
            native_items[ex.path] = rewritten
        # char-level origin map: rewritten offset -> original offset (or -1)
        omap = []
        pos = 0
        for e in applied:
            omap += list(range(pos, e.start))
            omap += [-1] * len(e.new)
            pos = e.end
        omap += list(range(pos, len(text)))
        assert len(omap) == len(rewritten)
        for e in applied:
            drops.append({'rule': e.rule, 'file': ex.file, 'line': src.line_of(start + e.start), 'what': e.note})
        if mutate is not None:
            new = mutate(ex.path, rewritten)
            if new is not None and new != rewritten:
                # mutants keep length bookkeeping simple: origin map is recomputed as unknown
                omap = list(range(len(new)))
                rewritten = new
        functions.append({'item': ex.path, 'file': ex.file, 'lines': [first_line, src.line_of(item.end)],
                          'sha256': hashlib.sha256(text.encode()).hexdigest()})
        if ex.assume_body:
            functions[-1]['mode'] = 'signature only: body dropped, contract ASSUMED (not an obligation)' + (', proved in unit %s' % ex.proved_in if ex.proved_in else '')
        plain_parts.append(rewritten + '\n\n')
        if plain_type_edits is not None and mutate is None and ex.vis is None and not ex.dropbounds and not plain_only:
            native_over[len(plain_parts) - 1] = R.apply_edits(text, plain_type_edits)[0] + '\n\n'
        # ---- binds
        binds = {}
        for name, rx, default in ex.binds:
            m = re.search(rx, rewritten, re.S)
            binds[name] = m.group(1) if m else default
        all_binds.update(binds)

        def subst(t):
            for k, v in binds.items():
                t = t.replace('$' + k, v)
            return t

        # ---- splices -> insertions (offset, text, block-name, sidecar line)
        ins = []
        if plain_only:
            # native rendering only (witness search after an undecided verifier run): no splices, no anchors
            b.add(rewritten + '\n\n', lambda k, exf=ex.file, fl=first_line, exp=ex.path: LineOrigin('src', exf, fl, fn=exp))
            # same-impl helper methods the function calls and the sidecar does not know (e.g. introduced by a
            # refactoring) are pulled in verbatim, transitively - for the NATIVE rendering only
            pp = parse_path(ex.path)
            if is_fn and len(pp) >= 2 and pp[-2][0] == 'impl':
                known = {parse_path(x.path)[-1][1] for x in sc.parts if isinstance(x, Extract)}
                todo, seen_h = [rewritten], set()
                while todo:
                    body = todo.pop()
                    for hm in re.finditer(r'(?:Self::|self\.)([a-z_]\w*)\s*\(', body):
                        hn = hm.group(1)
                        if hn in known or hn in seen_h:
                            continue
                        seen_h.add(hn)
                        try:
                            hit = src.find(pp[:-1] + [('fn', hn)])
                        except RsxError:
                            continue
                        htext = src.text[hit.start:hit.end]
                        hed = []
                        for r in ex.rules:
                            if r in R.RULES:
                                hed += R.RULES[r](htext)
                        hrew, _ = R.apply_edits(htext, hed)
                        plain_parts[-1] = plain_parts[-1] + hrew + '\n\n'
                        functions.append({'item': ' :: '.join('%s %s' % x for x in pp[:-1]) + ' :: fn ' + hn + ' (auto-extracted helper, native rendering only)',
                                          'file': ex.file, 'lines': [src.line_of(hit.start), src.line_of(hit.end)],
                                          'sha256': hashlib.sha256(htext.encode()).hexdigest()})
                        todo.append(hrew)
            continue
        if is_fn:
            an = fn_anatomy(rewritten)
            an_orig = fn_anatomy(text)
            if ex.ret and an.arrow is not None:
                ins.append((an.ret_start, '(%s: ' % ex.ret, 'ret', 0, False))
                ins.append((an.ret_end, ')', 'ret', 0, False))
            for sp in ex.splices:
                t = subst(sp.text)
                if sp.kind == 'sig':
                    if canary == ex.path:
                        t = t.rstrip('\n')
                        t += ('\n' if re.search(r'\bensures\b', t) else '\n    ensures\n') + '        false, //# canary\n'
                        if not re.search(r'\bensures\b', sp.text):
                            pass
                    ins.append((an.body_open, t, 'sig', sp.line, True))
                elif sp.kind == 'body_start':
                    ins.append((an.body_open + 1, t, 'body_start', sp.line, True))
                elif sp.kind in ('loop_start', 'loop_end', 'before_loop', 'after_loop'):
                    o = int(sp.arg)
                    if o >= len(an.loops):
                        raise RsxError('anchor-lost: loop#%d not found in %s' % (o, ex.path))
                    if sp.kind == 'before_loop':
                        off = rewritten.rfind('\n', 0, an.loops[o].header_start) + 1
                        ins.append((off, t, 'before-loop#%d' % o, sp.line, True))
                    elif sp.kind == 'after_loop':
                        off = rewritten.find('\n', an.loops[o].close)
                        off = len(rewritten) if off < 0 else off + 1
                        ins.append((off, t, 'after-loop#%d' % o, sp.line, True))
                    elif sp.kind == 'loop_start':
                        off = an.loops[o].brace + 1
                        # after an R3 binding inserted right behind the brace
                        m3 = re.match(r' let \w+ = it%d; (let \w+ = &[^;]+\[it%d\]; )?it%d \+= 1;' % (o, o, o), rewritten[off:])
                        if m3:
                            off += m3.end()
                        ins.append((off, t, 'loop#%d::body-start' % o, sp.line, True))
                    else:
                        off = rewritten.rfind('\n', 0, an.loops[o].close) + 1
                        ins.append((off, t, 'loop#%d::body-end' % o, sp.line, True))
                elif sp.kind == 'loop':
                    o = int(sp.arg)
                    if o >= len(an.loops):
                        raise RsxError('anchor-lost: loop#%d not found in %s' % (o, ex.path))
                    fp = ex.fingerprints.get(o)
                    if fp and (o >= len(an_orig.loops) or not _fp_ok(fp, an_orig.loops[o].header_text)):
                        raise RsxError('anchor-lost: loop#%d of %s is now `%s`, expected `%s`' % (o, ex.path, an_orig.loops[o].header_text if o < len(an_orig.loops) else '-', fp))
                    ins.append((an.loops[o].brace, t, 'loop#%d' % o, sp.line, True))
                else:
                    ms = list(re.finditer(sp.arg, rewritten))
                    if not ms:
                        raise RsxError('anchor-lost: /%s/ not found in %s' % (sp.arg, ex.path))
                    if sp.occurrence == 0 and len(ms) > 1:
                        raise RsxError('anchor-lost: /%s/ is ambiguous (%d matches) in %s' % (sp.arg, len(ms), ex.path))
                    m = ms[max(sp.occurrence - 1, 0)] if sp.occurrence else ms[0]
                    if sp.kind == 'before':
                        off = rewritten.rfind('\n', 0, m.start()) + 1
                    else:
                        off = rewritten.find('\n', m.end())
                        off = len(rewritten) if off < 0 else off + 1
                    ins.append((off, t, '%s(/%s/)' % (sp.kind, sp.arg), sp.line, True))
            if canary == ex.path and not any(sp.kind == 'sig' for sp in ex.splices):
                ins.append((an.body_open, '    ensures\n        false, //# canary\n', 'sig', 0, True))
            # ghost iterator names: `for x in e` -> `for x in NAME: e` (annotation only)
            for o, nm in ex.iternames.items():
                if o >= len(an.loops):
                    raise RsxError('anchor-lost: loop#%d not found in %s' % (o, ex.path))
                lp = an.loops[o]
                mh = re.match(r'for\s+.+?\s+in\s+', rewritten[lp.header_start:lp.brace], re.S)
                if lp.kw != 'for' or not mh:
                    raise RsxError('anchor-lost: loop#%d of %s is not a `for` loop' % (o, ex.path))
                ins.append((lp.header_start + mh.end(), '%s: ' % nm, 'itername', 0, False))
            # closure annotations: parameter types, named result and ensures (annotation only; a non-block body gets braces)
            if ex.closure_ann:
                from .rsx import closures as _closures
                cls = _closures(rewritten)
                for o, (ann, sline) in ex.closure_ann.items():
                    if o >= len(cls):
                        raise RsxError('anchor-lost: closure#%d not found in %s' % (o, ex.path))
                    c = cls[o]
                    ma = re.match(r'\|(.*?)\|\s*(->.*)$', ann)
                    if not ma:
                        raise SidecarError('%s: bad @closure annotation' % ex.path)
                    want_params = [x.strip() for x in _split_top(ma.group(1))] if ma.group(1).strip() else []
                    if len(want_params) != len(c.params):
                        raise RsxError('anchor-lost: closure#%d of %s has %d parameters, annotation names %d' % (o, ex.path, len(c.params), len(want_params)))
                    for wp, (pname, pend) in zip(want_params, c.params):
                        nm, _, ty = wp.partition(':')
                        if nm.strip() != pname:
                            raise RsxError('anchor-lost: closure#%d of %s: parameter `%s` is now `%s`' % (o, ex.path, nm.strip(), pname))
                        if ty.strip():
                            ins.append((pend, ': ' + ty.strip(), 'closure#%d' % o, sline, False))
                    ins.append((c.params_end, ' ' + ma.group(2).strip() + (' ' if c.block else ' { '), 'closure#%d' % o, sline, False))
                    if not c.block:
                        ins.append((c.body_end, ' }', 'closure#%d' % o, sline, False))
                    clause_count += 1
                    clauses_by_fn[ex.path] = clauses_by_fn.get(ex.path, 0) + 1
        else:
            if ex.splices:
                raise SidecarError('%s: splices on a non-function item' % ex.path)
        ins.sort(key=lambda x: x[0])
        # ---- emit
        for a in ex.attrs:
            b.add(a + '\n', (lambda a: lambda k: LineOrigin('raw', sc.path, ex.line, block='attribute on ' + ex.path, role='attr'))(a))
        if ex.assume_body:
            b.add('#[verifier::external_body]\n', lambda k, exl=ex.line, exp=ex.path: LineOrigin('raw', sc.path, exl, block='assumed contract of ' + exp, role='stub'))
        pos = 0

        def src_origin(seg_start, ex=ex, rewritten=rewritten, omap=omap, src=src, start=start, first_line=first_line):
            def f(k, seg_start=seg_start):
                # origin of the first non-ws char of line k of this segment
                off = seg_start
                seg = rewritten[seg_start:]
                cnt = 0
                idx = 0
                while cnt < k:
                    nx = seg.find('\n', idx)
                    if nx < 0:
                        return LineOrigin('rule', ex.file, first_line, fn=ex.path)
                    idx = nx + 1
                    cnt += 1
                j = seg_start + idx
                while j < len(rewritten) and rewritten[j] in ' \t':
                    j += 1
                if j < len(omap) and omap[j] >= 0:
                    return LineOrigin('src', ex.file, src.line_of(start + omap[j]), fn=ex.path)
                return LineOrigin('rule', ex.file, first_line, fn=ex.path)
            return f

        for off, t, block, sline, own_lines in ins:
            if off > pos:
                b.add(rewritten[pos:off], src_origin(pos))
                pos = off
            if own_lines:
                if ex.assume_body:
                    # the clauses of an ASSUMED contract are assumptions, not obligations: never counted as discharged
                    assumed.append({'fn': ex.path, 'file': ex.file, 'clauses': _count_clauses(t), 'proved_in': ex.proved_in or '',
                                    'text': ' '.join(re.sub(r'//#.*', '', t).split())[:600]})
                else:
                    splice_count += 1
                    clause_count += _count_clauses(t)
                    clauses_by_fn[ex.path] = clauses_by_fn.get(ex.path, 0) + _count_clauses(t)
                pre = '' if (pos == 0 or rewritten[pos - 1] == '\n') else '\n'
                b.add(pre + t, (lambda block, sline, pre, exp: lambda k: LineOrigin('splice', sc.path, sline + k - (1 if pre else 0), fn=exp, block=block))(block, sline, pre, ex.path))
            else:
                # inline annotation: wrapped in marker comments so that the self-check can remove exactly it
                b.add('/*<*/' + t + '/*>*/', (lambda block, exp: lambda k: LineOrigin('splice', sc.path, 0, fn=exp, block=block))(block, ex.path))
        b.add(rewritten[pos:] + '\n\n', src_origin(pos))

    b.add('\n} // verus!\nfn main() {}\n', lambda k: LineOrigin('frame', sc.path, 0))
    text, origins = b.finish()
    sources = {f: hashlib.sha256(s.text.encode()).hexdigest() for f, s in cache.items()}
    asm = Assembled(text, origins, sources, drops, functions, splice_count, clause_count, assumed=assumed, clauses_by_fn=clauses_by_fn, native_items=native_items,
                    plain=''.join(native_over.get(i, t) for i, t in enumerate(plain_parts)), binds=all_binds)
    # ---- self-check (3.3): removing every line that came from a splice/raw/frame and undoing nothing
    # else must give exactly the rule-rewritten token stream of the extracted items
    kept_lines = []
    for ln, o in zip(text.split('\n'), origins):
        if o.kind in ('src', 'rule'):
            kept_lines.append(ln)
    got = sig_tokens(re.sub(r'/\*<\*/.*?/\*>\*/', '', '\n'.join(kept_lines)))
    want = []
    for part in plain_parts[1:]:
        want += sig_tokens(part)
    # glue raw parts are included in plain but come from 'raw' lines: remove them from want
    want_noglue = []
    for part, p in zip(plain_parts[1:], [x for x in sc.parts if isinstance(x, Extract) or (isinstance(x, Raw) and x.role == 'glue')]):
        if isinstance(p, Extract):
            want_noglue += sig_tokens(part)
    # the `(r: T)` return naming splits a source line: strip those insertions from `got`
    asm.selfcheck_ok = _strip_ret(got, [e.ret for e in sc.parts if isinstance(e, Extract) and e.ret]) == want_noglue if mutate is None else True
    return asm


def _split_top(t, angle=True):
    out, cur, depth = [], '', 0
    op, cl = ('([{<', ')]}>') if angle else ('([{', ')]}')
    for ch in t:
        if ch in op:
            depth += 1
        elif ch in cl:
            depth -= 1
        if ch == ',' and depth == 0:
            out.append(cur)
            cur = ''
        else:
            cur += ch
    if cur.strip():
        out.append(cur)
    return out


def _fp_ok(fp, header):
    """a loop fingerprint matches when the keyword is the same and every identifier of the fingerprint
    still occurs in the header (so `i < n` -> `i <= n` is the same loop; a different loop is anchor-lost)"""
    ids = lambda t: set(re.findall(r'[A-Za-z_]\w*', t))
    return fp.split()[0] == header.split()[0] and ids(fp) <= ids(header)


def _nows(s):
    return re.sub(r'\s+', '', s)


def _strip_ret(tokens, names):
    """remove the inserted `( r :` ... `)` around return types"""
    if not names:
        return tokens
    out = []
    i = 0
    n = len(tokens)
    while i < n:
        if tokens[i] == '->' and i + 3 < n and tokens[i + 1] == '(' and tokens[i + 2] in names and tokens[i + 3] == ':':
            out.append('->')
            depth = 0
            j = i + 4
            while j < n:
                if tokens[j] in '([{':
                    depth += 1
                elif tokens[j] in ')]}':
                    if depth == 0:
                        break
                    depth -= 1
                out.append(tokens[j])
                j += 1
            i = j + 1
            continue
        out.append(tokens[i])
        i += 1
    return out
