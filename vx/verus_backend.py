"""Run Verus on an assembled unit and map diagnostics to named obligations (DESIGN.md 3.4)."""
import json
import os
import re
import subprocess
import time
from dataclasses import dataclass, field
from typing import List, Optional

from .unit import Assembled, LineOrigin

VERIF_FAIL = re.compile(
    r'^(assertion failed|postcondition not satisfied|precondition not satisfied|'
    r'invariant not satisfied before loop|invariant not satisfied at end of loop body|'
    r'loop invariant not satisfied|loop ensures not satisfied|'
    r'possible arithmetic underflow/overflow|possible division by zero|possible bit shift underflow/overflow|'
    r'decreases not satisfied.*|could not prove termination|'
    r'assertion failed in assert_by.*|unable to prove.*|'
    r'cannot show invariant holds.*|recommendation not met.*|'
    r'failed this postcondition|possible .*overflow.*|value may be out of range of the target type.*|'
    r'loop must have a decreases clause.*)')
RLIMIT = re.compile(r'(Resource limit|rlimit).*exceeded|took longer than|timed out', re.I)


@dataclass
class Failure:
    obligation: str          # named obligation
    message: str
    kind: str                # contract | safety | hint | spec-lemma | canary
    fn: str
    where: str               # file:line of the primary location (source or sidecar)
    rendered: str
    lines: List[int] = field(default_factory=list)


@dataclass
class VerusResult:
    status: str              # verified | failed | undecided
    reason: str
    verified: int
    errors: int
    failures: List[Failure]
    wall_s: float
    smt_ms: int
    rlimit: int
    fn_breakdown: list
    raw_stderr: str
    cmd: str


def run_verus(asm: Assembled, workdir: str, name: str, rlimit: Optional[float] = None, seed: Optional[int] = None,
              extra: List[str] = ()) -> VerusResult:
    os.makedirs(workdir, exist_ok=True)
    path = os.path.join(workdir, name + '.rs')
    with open(path, 'w') as f:
        f.write(asm.text)
    cmd = ['verus', name + '.rs', '--output-json', '--time', '--multiple-errors', '50', '--triggers-mode', 'silent',
           '--error-format=json', '--num-threads', '8']
    if rlimit is not None:
        cmd += ['--rlimit', str(rlimit)]
    if seed is not None:
        cmd += ['--smt-option', 'smt.random_seed=%d' % seed, '--smt-option', 'sat.random_seed=%d' % seed]
    cmd += list(extra)
    t0 = time.time()
    try:
        p = subprocess.run(cmd, cwd=workdir, capture_output=True, text=True, timeout=900)
    except subprocess.TimeoutExpired:
        return VerusResult('undecided', 'verus timeout (900 s)', 0, 0, [], time.time() - t0, 0, 0, [], '', ' '.join(cmd))
    wall = time.time() - t0
    verified = errors = smt_ms = rl = 0
    breakdown = []
    try:
        j = json.loads(p.stdout)
        vr = j.get('verification-results', {})
        verified, errors = vr.get('verified', 0), vr.get('errors', 0)
        smt = j.get('times-ms', {}).get('smt', {})
        smt_ms = smt.get('total', 0)
        rl = smt.get('rlimit-run', 0)
        for m in smt.get('smt-run-module-times', []):
            for fb in m.get('function-breakdown', []):
                breakdown.append({'function': fb['function'], 'mode': fb.get('mode:', ''), 'us': fb.get('time-micros', 0),
                                  'rlimit': fb.get('rlimit', 0), 'success': fb.get('success')})
    except Exception:
        j = None
    diags = []
    for line in p.stderr.split('\n'):
        line = line.strip()
        if line.startswith('{'):
            try:
                diags.append(json.loads(line))
            except Exception:
                pass
    failures: List[Failure] = []
    hard = []
    undec = []
    for d in diags:
        lvl, msg = d.get('level'), d.get('message', '')
        if lvl != 'error':
            continue
        if msg.startswith('aborting due to'):
            continue
        if RLIMIT.search(msg):
            undec.append(msg)
            continue
        if VERIF_FAIL.match(msg):
            failures.append(_name(d, asm))
        else:
            hard.append(d.get('rendered') or msg)
    cmd_s = ' '.join(cmd)
    if hard:
        return VerusResult('undecided', 'verus rejected the assembled file (not a verification failure): ' + hard[0][:1500],
                           verified, errors, failures, wall, smt_ms, rl, breakdown, p.stderr, cmd_s)
    if undec:
        return VerusResult('undecided', 'resource limit: ' + undec[0], verified, errors, failures, wall, smt_ms, rl, breakdown, p.stderr, cmd_s)
    if j is None:
        return VerusResult('undecided', 'verus produced no JSON result (rc=%d): %s' % (p.returncode, p.stderr[-800:]), 0, 0, [], wall, 0, 0, [], p.stderr, cmd_s)
    if failures or errors or p.returncode != 0:
        if not failures:
            return VerusResult('undecided', 'verus failed without a mappable diagnostic (rc=%d): %s' % (p.returncode, p.stderr[-800:]),
                               verified, errors, failures, wall, smt_ms, rl, breakdown, p.stderr, cmd_s)
        return VerusResult('failed', '', verified, errors, failures, wall, smt_ms, rl, breakdown, p.stderr, cmd_s)
    return VerusResult('verified', '', verified, errors, [], wall, smt_ms, rl, breakdown, p.stderr, cmd_s)


def _label_of(line_text: str) -> Optional[str]:
    m = re.search(r'//#\s*(.+?)\s*$', line_text)
    return m.group(1) if m else None


def _name(d: dict, asm: Assembled) -> Failure:
    msg = d['message']
    lines = asm.text.split('\n')
    all_spans = d.get('spans', [])
    foreign = [s for s in all_spans if not (0 < s.get('line_start', 0) <= len(lines) and s.get('text') and
                                           s['text'][0]['text'] == lines[s['line_start'] - 1])]
    spans = [s for s in all_spans if s not in foreign]
    vstd_note = ''
    for s in foreign:
        if s.get('label') and 'failed' in s['label'] and s.get('text'):
            vstd_note = ' [std/vstd precondition: %s]' % ' '.join(s['text'][0]['text'].split())[:80]
    msg_full = msg + vstd_note
    primary = [s for s in spans if s.get('is_primary')] or spans
    labelled = [s for s in spans if s.get('label') and 'failed' in s['label']]
    # the clause that failed (if Verus points at one), else the primary span
    clause_span = labelled[0] if labelled else None
    if clause_span is None and msg.startswith('invariant not satisfied'):
        clause_span = primary[0]
    if clause_span is None and msg.startswith('assertion failed'):
        clause_span = primary[0]
    loc_span = primary[0] if primary else None

    def origin(sp) -> LineOrigin:
        ln = sp['line_start']
        return asm.origins[ln - 1] if 0 < ln <= len(asm.origins) else LineOrigin('frame', '', 0)

    all_lines = sorted({s['line_start'] for s in spans})
    o_loc = origin(loc_span) if loc_span else LineOrigin('frame', '', 0)
    if clause_span is not None:
        o = origin(clause_span)
        text = lines[clause_span['line_start'] - 1]
        label = _label_of(text) or ' '.join(text.strip().rstrip(',').split())[:90]
        if o.kind == 'splice':
            fn = o.fn.split(' :: ')[-1].replace('fn ', '')
            if msg.startswith('assertion failed'):
                # an assert spliced into the body is a proof hint - unless its label marks it as a program-point OBLIGATION taken
                # from the property statement (e.g. "success is only reported when all input is consumed")
                kind = 'contract' if label.startswith('obligation:') else 'hint'
            elif msg.startswith('decreases not satisfied') or msg.startswith('could not prove termination'):
                kind = 'safety'      # termination
            else:
                kind = 'contract'
            name = '%s::%s::%s' % (fn, o.block, label)
            if 'canary' in label:
                kind = 'canary'
            where = '%s:%d' % (os.path.basename(o.where), o.line)
            if msg.startswith('precondition not satisfied') or msg.startswith('postcondition') or 'loop' in msg or 'invariant' in msg:
                # add the program point (source line) where it failed
                if o_loc.kind == 'src':
                    where += ' at %s:%d' % (o_loc.where, o_loc.line)
            return Failure(name, msg, kind, fn, where, d.get('rendered', ''), all_lines)
        if o.kind == 'raw':
            # a clause of a stub/spec: either a callee precondition violated by the code, or a lemma failing
            if o_loc.kind in ('src', 'rule', 'splice') and o_loc.fn:
                fn = o_loc.fn.split(' :: ')[-1].replace('fn ', '')
                kind = 'contract' if o_loc.kind != 'splice' or not msg.startswith('assertion') else 'hint'
                return Failure('%s::pre-of-callee::%s' % (fn, label), msg, 'contract', fn,
                               '%s:%d' % (o_loc.where, o_loc.line), d.get('rendered', ''), all_lines)
            return Failure('spec::%s::%s' % (o.block, label), msg, 'spec-lemma', '', '%s:%d' % (os.path.basename(o.where), o.line),
                           d.get('rendered', ''), all_lines)
        if o.kind in ('src', 'rule'):
            fn = o.fn.split(' :: ')[-1].replace('fn ', '')
            kind = 'contract' if 'R2' in label or msg.startswith('assertion failed') else 'safety'
            return Failure('%s::%s@%s:%d' % (fn, 'debug_assert' if msg.startswith('assertion') else _short(msg), o.where, o.line),
                           msg, kind, fn, '%s:%d' % (o.where, o.line), d.get('rendered', ''), all_lines)
    # no clause span: safety obligations located in source (overflow, bounds via precondition, termination)
    if o_loc.kind in ('src', 'rule'):
        fn = o_loc.fn.split(' :: ')[-1].replace('fn ', '')
        return Failure('%s::%s@%s:%d' % (fn, _short(msg), o_loc.where, o_loc.line), msg_full, 'safety', fn,
                       '%s:%d' % (o_loc.where, o_loc.line), d.get('rendered', ''), all_lines)
    if o_loc.kind == 'splice':
        fn = o_loc.fn.split(' :: ')[-1].replace('fn ', '')
        text = lines[loc_span['line_start'] - 1]
        label = _label_of(text) or ' '.join(text.strip().rstrip(',').split())[:90]
        kind = 'hint' if (msg.startswith('assertion') or msg.startswith('precondition')) else 'contract'
        if label.startswith('obligation:') and msg.startswith('assertion'):
            kind = 'contract'
        return Failure('%s::%s::%s' % (fn, o_loc.block, label), msg, kind, fn, '%s:%d' % (os.path.basename(o_loc.where), o_loc.line),
                       d.get('rendered', ''), all_lines)
    if o_loc.kind == 'raw':
        text = lines[loc_span['line_start'] - 1] if loc_span else ''
        label = _label_of(text) or ' '.join(text.strip().split())[:90]
        return Failure('spec::%s::%s' % (o_loc.block, label), msg, 'spec-lemma', '', '%s:%d' % (os.path.basename(o_loc.where), o_loc.line),
                       d.get('rendered', ''), all_lines)
    return Failure('unmapped::' + _short(msg), msg, 'spec-lemma', '', '?', d.get('rendered', ''), all_lines)


def _short(msg: str) -> str:
    return {'possible arithmetic underflow/overflow': 'overflow',
            'precondition not satisfied': 'pre-of-callee',
            'postcondition not satisfied': 'ensures',
            'possible division by zero': 'div-by-zero'}.get(msg, re.sub(r'\W+', '-', msg)[:40])
