"""Kani back end (DESIGN.md 3.5): whole-file mode.

The unit's `crate/` directory is a template of a dependency-free cargo workspace.  `.rs` files may
contain directive lines:

  //@extract <repo file> :: <item path>      replaced by the item's text, verbatim
  //@wholefile <repo file>                   replaced by the whole file up to `#[cfg(test)] mod ..`,
                                             with the contract attributes of contracts.txt inserted
                                             above the functions they name (located by path)
  //@append <file in unit dir>               replaced by that file's text (the harness module)

Everything else in the template is hand-written shim/harness text and is listed as such.  Each
harness of unit.json is run as its own `cargo kani` process under ulimit -v and timeout.
"""
import hashlib
import json
import os
import re
import shutil
import subprocess
import time
from concurrent.futures import ThreadPoolExecutor
from dataclasses import dataclass, field

from .rsx import Source, RsxError, parse_path
from .unit import REPO

CUT = re.compile(r'\n#\[cfg\(test\)\]\s*\n(pub\s+)?mod\s+\w+\s*\{')


@dataclass
class KFailure:
    obligation: str
    message: str
    kind: str
    fn: str
    where: str
    rendered: str
    witness: object = None
    witness_note: str = ''


def parse_contracts(path):
    """contracts.txt:  `@contract <item path>` followed by attribute lines"""
    out = []
    if not os.path.exists(path):
        return out
    cur = None
    for ln in open(path).read().split('\n'):
        if ln.startswith('@contract '):
            cur = {'path': ln[len('@contract '):].strip(), 'attrs': []}
            out.append(cur)
        elif ln.strip() and not ln.startswith('#!') and cur is not None and not ln.startswith('# '):
            cur['attrs'].append(ln.rstrip())
    return out


def build_crate(u, work, mutate=None):
    """returns (crate_dir, info) ; info: functions, drops, sources"""
    tdir = os.path.join(u['dir'], 'crate')
    cdir = os.path.join(work, u['name'] + '_crate')
    if os.path.exists(cdir):
        shutil.rmtree(cdir)
    shutil.copytree(tdir, cdir)
    contracts = parse_contracts(os.path.join(u['dir'], 'contracts.txt'))
    cache = {}
    info = {'functions': [], 'drops': [], 'sources': {}, 'contracts': []}

    def src_of(rel):
        p = os.path.join(REPO, rel)
        if p not in cache:
            if not os.path.exists(p):
                raise RsxError('anchor-lost: file %s missing' % rel)
            cache[p] = Source(p, open(p).read())
            info['sources'][rel] = hashlib.sha256(cache[p].text.encode()).hexdigest()
        return cache[p]

    for root, _, files in os.walk(cdir):
        for fn in files:
            if not fn.endswith('.rs'):
                continue
            path = os.path.join(root, fn)
            out = []
            for ln in open(path).read().split('\n'):
                s = ln.strip()
                if s.startswith('//@extract '):
                    rel, _, ipath = s[len('//@extract '):].partition(' :: ')
                    src = src_of(rel.strip())
                    item = src.find(parse_path(ipath.strip()))
                    out.append(src.text[item.start:item.end])
                    info['functions'].append({'item': ipath.strip(), 'file': rel.strip(), 'mode': 'item verbatim',
                                              'lines': [src.line_of(item.start), src.line_of(item.end)]})
                elif s.startswith('//@wholefile '):
                    rel = s[len('//@wholefile '):].strip()
                    src = src_of(rel)
                    text = src.text
                    m = CUT.search(text)
                    cut_at = m.start() if m else len(text)
                    if m:
                        info['drops'].append({'rule': 'cut', 'file': rel, 'line': src.line_of(cut_at) + 1,
                                              'what': 'everything from `#[cfg(test)] mod` to end of file dropped (unit tests)'})
                    # contract attributes, inserted right-to-left
                    ins = []
                    for c in contracts:
                        if c.get('file') and c['file'] != rel:
                            continue
                        item = src.find(parse_path(c['path']))
                        # insert before the first code token of the item (after doc comments)
                        off = src.ct[item.first].start
                        ls = text.rfind('\n', 0, off) + 1
                        indent = text[ls:off] if text[ls:off].strip() == '' else ''
                        ins.append((ls if indent or ls == off else off, ''.join(indent + a.strip() + '\n' for a in c['attrs'])))
                        info['contracts'].append({'fn': c['path'], 'file': rel, 'line': src.line_of(off), 'clauses': len(c['attrs'])})
                        info['functions'].append({'item': c['path'], 'file': rel, 'mode': 'in whole file, contract attributes inserted above',
                                                  'lines': [src.line_of(item.start), src.line_of(item.end)]})
                    body = text[:cut_at]
                    if mutate is not None:
                        body2 = mutate(rel, body)
                        if body2 is not None:
                            # recompute insertion offsets on the mutated text by re-parsing
                            msrc = Source(rel, body2)
                            ins = []
                            for c in contracts:
                                item = msrc.find(parse_path(c['path']))
                                off = msrc.ct[item.first].start
                                ls = body2.rfind('\n', 0, off) + 1
                                indent = body2[ls:off] if body2[ls:off].strip() == '' else ''
                                ins.append((ls, ''.join(indent + a.strip() + '\n' for a in c['attrs'])))
                            body = body2
                    for off, t in sorted(ins, reverse=True):
                        if off <= len(body):
                            body = body[:off] + t + body[off:]
                    for rp in u.get('replaces', []):
                        if rp['file'] != rel:
                            continue
                        body, n = re.subn(rp['find'], rp['replace'], body)
                        if n == 0:
                            raise RsxError('anchor-lost: replace /%s/ not found in %s' % (rp['find'], rel))
                        info['drops'].append({'rule': 'replace', 'file': rel, 'line': 0, 'what': '%s (%d x)' % (rp['note'], n)})
                    out.append(body)
                elif s.startswith('//@append '):
                    out.append(open(os.path.join(u['dir'], s[len('//@append '):].strip())).read())
                else:
                    out.append(ln)
            with open(path, 'w') as f:
                f.write('\n'.join(out))
    lock = os.path.join(REPO, 'Cargo.lock')
    return cdir, info


RESULT_RE = re.compile(r'VERIFICATION:- (SUCCESSFUL|FAILED)')


def run_harness(cdir, h, extra_args=(), playback=False):
    name = h['name']
    mem_kb = int(h.get('mem_gb', 16) * 1024 * 1024)
    timeout = h.get('timeout_s', 900)
    tdir = os.path.join(cdir, 'target_' + re.sub(r'\W', '_', name))
    cmd = ['cargo', 'kani', '-Z', 'function-contracts', '-Z', 'stubbing', '--harness', name, '--exact',
           '--output-format', 'terse', '--target-dir', tdir]
    if playback:
        cmd += ['-Z', 'concrete-playback', '--concrete-playback=print']
    cmd += list(extra_args)
    env = dict(os.environ, CARGO_NET_OFFLINE='true')
    sh = 'ulimit -v %d; exec timeout %d %s' % (mem_kb, timeout, ' '.join("'%s'" % c for c in cmd))
    t0 = time.time()
    p = subprocess.run(['bash', '-c', sh], cwd=cdir, capture_output=True, text=True, env=env)
    wall = time.time() - t0
    out = p.stdout + '\n' + p.stderr
    shutil.rmtree(tdir, ignore_errors=True)
    m = RESULT_RE.search(out)
    res = {'name': name, 'wall_s': round(wall, 1), 'rc': p.returncode, 'cmd': ' '.join(cmd[:-2]), 'out': out}
    if p.returncode == 124:
        res['status'] = 'undecided'
        res['reason'] = 'timeout after %d s' % timeout
    elif m is None:
        res['status'] = 'undecided'
        oom = 'out of memory' in out.lower() or 'bad_alloc' in out or 'std::bad_alloc' in out or 'Cannot allocate' in out
        res['reason'] = ('CBMC out of memory under ulimit %d GB' % h.get('mem_gb', 16)) if oom else 'no verification result (rc=%d): %s' % (p.returncode, out[-1200:])
    elif m.group(1) == 'SUCCESSFUL':
        res['status'] = 'verified'
    else:
        res['status'] = 'failed'
        if not re.search(r'Failed Checks: ', out):
            # CBMC reported FAILED without a single failed property: solver / memory error (all checks `ERROR`)
            res['status'] = 'undecided'
            res['reason'] = 'Kani reported FAILED without a failed property (solver or memory error under ulimit %d GB)' % h.get('mem_gb', 16)
    # failed checks
    res['failed_checks'] = re.findall(r'Failed Checks: (.*)', out)
    res['unwind_fail'] = any('unwinding assertion' in f for f in res['failed_checks'])
    # covers
    cov = re.search(r'(\d+) of (\d+) cover properties satisfied', out)
    res['covers'] = (int(cov.group(1)), int(cov.group(2))) if cov else None
    res['stub_lines'] = re.findall(r'- Stub: .*|Stub(?:bed)? .*', out)[:5]
    tm = re.search(r'Verification Time: ([\d.]+)s', out)
    res['solver_s'] = float(tm.group(1)) if tm else 0.0
    res['playback'] = re.findall(r'// (\d+|-?\d+|0x[0-9a-f]+|.*)\n\s*vec!\[([^\]]*)\]', out) if playback else []
    return res


def run_kani_unit(u, tier, seed, work, mutate=None, only=None):
    cdir, info = build_crate(u, work, mutate=mutate)
    harnesses = [h for h in u['harnesses'] if (tier == 'thorough' or h.get('tier', 'quick') == 'quick')]
    if only:
        harnesses = [h for h in harnesses if h['name'] in only]
    heavy = [h for h in harnesses if h.get('alone')]
    light = [h for h in harnesses if not h.get('alone')]
    results = []
    par = int(u.get('parallel', 6))
    with ThreadPoolExecutor(max_workers=par) as ex:
        results += list(ex.map(lambda h: run_harness(cdir, h), light))
    for h in heavy:
        results.append(run_harness(cdir, h))
    by = {r['name']: r for r in results}
    out = {'undecided': None, 'obligations': 0, 'discharged': 0, 'bounded': [], 'solver_s': 0.0, 'failures': [], 'samples': [],
           'assumptions': [], 'functions': [dict(f, unit=u['name']) for f in info['functions']],
           'drops': [dict(d, unit=u['name']) for d in info['drops']], 'cmd': '', 'extra': {}}
    ev_h = []
    for h in harnesses:
        r = by[h['name']]
        out['cmd'] = r['cmd'].replace(h['name'], '<harness>')
        out['solver_s'] += r['solver_s']
        label = '%s [%s]' % (h['name'].split('::')[-1], h.get('what', ''))
        bounded = h.get('kind') == 'bounded'
        rec = {'harness': h['name'], 'what': h.get('what', ''), 'kind': h.get('kind', 'complete'), 'status': r['status'], 'wall_s': r['wall_s'],
               'solver_s': r['solver_s'], 'covers': r['covers'], 'contract_for': h.get('contract_for'), 'stub_verified': h.get('stub_verified'),
               'bound': h.get('bound')}
        ev_h.append(rec)
        if r['status'] == 'undecided':
            if h.get('optional') and h.get('kind') == 'bounded':
                # a heavy BOUNDED cross-check (its function is proved or enumerated elsewhere): a resource failure is recorded, not fatal
                out['bounded'].append({'harness': h['name'], 'what': h.get('what', ''), 'bound': h.get('bound', ''),
                                       'status': 'not completed (%s)' % r['reason'][:160]})
                continue
            if out['undecided'] is None:
                out['undecided'] = 'harness %s: %s' % (h['name'], r['reason'])
            continue
        if r['status'] == 'verified' and r['covers'] is not None and r['covers'][0] < r['covers'][1] and not h.get('covers_may_fail'):
            out['undecided'] = 'harness %s: only %d of %d cover properties satisfied (vacuity guard)' % (h['name'], r['covers'][0], r['covers'][1])
            continue
        if r['status'] == 'failed' and r['unwind_fail'] and all('unwinding assertion' in f for f in r['failed_checks']):
            out['undecided'] = 'harness %s: unwinding assertion failed (unwind bound too small for the current code)' % h['name']
            continue
        if bounded:
            out['bounded'].append({'harness': h['name'], 'what': h.get('what', ''), 'bound': h.get('bound', ''), 'status': r['status']})
        else:
            out['obligations'] += 1
            if r['status'] == 'verified':
                out['discharged'] += 1
            out['samples'].append(label)
        if r['status'] == 'failed':
            f = KFailure(obligation='%s::%s' % (u['name'], h['name'].split('::')[-1]), message='; '.join(r['failed_checks'])[:600] or 'verification failed',
                         kind='contract', fn=h.get('contract_for') or h['name'], where=h.get('what', ''), rendered=_tail(r['out']))
            # counterexample
            pr = run_harness(cdir, h, playback=True)
            tests = re.findall(r'(#\[test\][\s\S]*?\n\}\n)', pr['out'])
            vals = re.findall(r'vec!\[([0-9, ]*)\]', tests[0]) if tests else []
            if tests:
                f.witness = {'harness': h['name'], 'kani_any_bytes': vals, 'playback_tests': tests}
                f.witness_note = 'Kani concrete playback: one byte vector per kani::any() call, in call order'
                # native replay
                ok, note = native_replay(u, cdir, h, f.witness)
                f.witness['native_replay'] = note
                if not ok:
                    f.witness_note += ' (native replay: %s)' % note
            else:
                f.witness_note = 'Kani produced no concrete values for this failure'
            out['failures'].append(f)
    for mline in u.get('scan_whitelist', []):
        pass
    out['assumptions'] += scan_kani_assumptions(u, cdir)
    out['evidence'] = {'unit': u['name'], 'backend': 'kani', 'harnesses': ev_h, 'contracts_inserted': info['contracts'],
                       'source_sha256': info['sources'], 'parallel': par}
    return out


def _tail(s, n=3000):
    i = s.find('RESULTS:')
    return s[i:i + n] if i >= 0 else s[-n:]


def scan_kani_assumptions(u, cdir):
    """every kani::assume / kani::stub / unsafe in the generated crate is reported; assume is only allowed
    inside the harness module"""
    found = []
    for root, _, files in os.walk(cdir):
        if os.sep + 'target' in root:
            continue
        for fn in files:
            if not fn.endswith('.rs'):
                continue
            in_harness = False
            for i, ln in enumerate(open(os.path.join(root, fn)).read().split('\n'), 1):
                if re.match(r'\s*(pub )?mod verif\b', ln):
                    in_harness = True
                code = re.sub(r'//.*', '', ln)
                for m in re.finditer(r'kani::assume|kani::stub\b|\bunsafe\b|kani::stub_verified', code):
                    tok = m.group(0)
                    rel = os.path.relpath(os.path.join(root, fn), cdir)
                    if tok == 'kani::assume' and not in_harness:
                        raise RsxError('assumption-scan: kani::assume outside the harness module at %s:%d' % (rel, i))
                    found.append('%s at %s:%d: %s' % (tok, rel, i, ' '.join(code.split())[:110]))
    # collapse: report counts per token + the distinct assume conditions
    uniq = sorted(set(re.sub(r' at [^:]+:\d+', '', f) for f in found))
    return uniq


def native_replay(u, cdir, h, witness):
    """Replays the recorded counterexample natively on the real function.
    contract harnesses: the unit's replay binary (native twin evaluating pre ==> post explicitly, because
    Kani's playback erases contracts); plain harnesses: `cargo kani playback` of the generated test."""
    tests = witness.get('playback_tests') or []
    if not tests:
        return False, 'no playback test emitted'
    env = dict(os.environ, CARGO_NET_OFFLINE='true', CARGO_TARGET_DIR=os.path.join(cdir, 'target_pb'))
    short = h['name'].split('::')[-1]
    try:
        if h.get('contract_for') and u.get('replay_bin'):
            b = subprocess.run(['cargo', 'build', '--offline', '--quiet', '--manifest-path', 'replay/Cargo.toml'],
                               cwd=cdir, capture_output=True, text=True, env=env, timeout=900)
            if b.returncode != 0:
                return False, 'native build failed: ' + b.stderr[-600:]
            exe = os.path.join(cdir, 'target_pb', 'debug', u['replay_bin'])
            notes = []
            for t in tests:
                vals = re.findall(r'vec!\[([0-9, ]*)\]', t)
                arg = ';'.join(v.replace(' ', '') for v in vals)
                p = subprocess.run([exe, short, arg], capture_output=True, text=True, timeout=120)
                notes.append(p.stdout.strip())
                if p.returncode == 1:
                    witness['replayed_values'] = vals
                    return True, p.stdout.strip()
            return False, 'replay-diverged: ' + ' | '.join(notes)[:400]
        target = os.path.join(cdir, u.get('playback_file', 'src/lib.rs'))
        src = open(target).read()
        try:
            notes = []
            for t in tests:
                # the generated test goes into the harness module (it calls the harness by its bare name)
                marker = '    #[cfg(kani)]\n    mod harnesses {\n'
                if marker in src:
                    patched = src.replace(marker, marker + t + '\n', 1)
                else:
                    idx = src.rfind('}')
                    patched = src[:idx] + '\n' + t + '\n' + src[idx:]
                open(target, 'w').write(patched)
                tname = re.search(r'fn (kani_concrete_playback_\w+)', t).group(1)
                p = subprocess.run(['cargo', 'kani', 'playback', '-Z', 'concrete-playback', '--', tname],
                                   cwd=cdir, capture_output=True, text=True, env=env, timeout=900)
                out = p.stdout + p.stderr
                if 'test result: FAILED' in out or 'panicked' in out:
                    msg = re.search(r"panicked at [^\n]*\n([^\n]*)", out)
                    witness['replayed_values'] = re.findall(r'vec!\[([0-9, ]*)\]', t)
                    return True, 'REPRODUCED natively (cargo kani playback): %s' % (msg.group(1).strip() if msg else 'panic')
                notes.append('passes natively' if 'test result: ok' in out else 'playback build failed: ' + out[-300:])
            return False, 'replay-diverged: ' + ' | '.join(notes)[:500]
        finally:
            open(target, 'w').write(src)
    finally:
        shutil.rmtree(os.path.join(cdir, 'target_pb'), ignore_errors=True)


def replay_kani(prop, path, doc, u, work):
    cdir, info = build_crate(u, work)
    h = [x for x in u['harnesses'] if x['name'] == doc['witness']['harness']]
    if not h:
        print('UNDECIDED replay: harness no longer exists')
        return 2
    ok, note = native_replay(u, cdir, h[0], doc['witness'])
    print(note)
    if ok:
        print('VIOLATION property=%s replay=%s' % (prop, path))
        return 1
    if note.startswith('replay-diverged'):
        print('replay: the recorded values no longer violate the harness assertion on the current tree')
        return 0
    print('UNDECIDED ' + note)
    return 2


def thorough_kani(u, seed, work):
    """mutant self-test: each mutant of the verbatim source must make one of its named harnesses fail
    (or, for harmless mutants, keep them verified); otherwise the check is degraded -> undecided"""
    import glob
    info = {'mutants': []}
    for mp in sorted(glob.glob(os.path.join(u['dir'], 'mutants', '*.json'))):
        m = json.load(open(mp))
        hits = [0]

        def mut(rel, text, m=m, hits=hits):
            if m.get('file') and m['file'] != rel:
                return None
            new, n = re.subn(m['find'], m['replace'], text, count=m.get('count', 1), flags=re.S)
            hits[0] += n
            return new if n else None
        only = [h['name'] for h in u['harnesses'] if h['name'].split('::')[-1] in m['harnesses']]
        try:
            r = run_kani_unit(u, 'thorough', seed, os.path.join(work, 'mut'), mutate=mut, only=only)
        except RsxError as e:
            info['mutants'].append({'mutant': os.path.basename(mp), 'result': 'anchor-lost: %s' % e})
            continue
        if hits[0] == 0:
            info['mutants'].append({'mutant': os.path.basename(mp), 'result': 'pattern-not-found (code changed; mutant skipped)'})
            continue
        failed = [f.obligation for f in r['failures']]
        if m.get('expect', 'fail') == 'fail':
            ok = bool(failed)
        else:
            ok = not failed and not r['undecided']
        info['mutants'].append({'mutant': os.path.basename(mp), 'what': m.get('what', ''), 'expect': m.get('expect', 'fail'), 'ok': ok,
                                'failed_obligations': failed, 'undecided': r['undecided'],
                                'counterexample': (r['failures'][0].witness or {}).get('kani_any_bytes') if r['failures'] else None,
                                'native_replay': (r['failures'][0].witness or {}).get('native_replay') if r['failures'] else None})
        if not ok:
            info['degraded'] = 'mutant %s (%s): expected %s, got failures=%s undecided=%s' % (os.path.basename(mp), m.get('what', ''), m.get('expect', 'fail'), failed, r['undecided'])
            break
    return info
