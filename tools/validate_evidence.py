#!/usr/bin/env python3
"""tools/validate_evidence.py [Cxx ...] - is evidence/<id>.json a valid record for the level MANIFEST.json claims?

Checks, per claimed property: the file exists and is JSON; it validates against /root/.vp/EVIDENCE.schema.json (when the
jsonschema module is importable - python3-vt has it); level == MANIFEST level_claimed.category; for a proof-level claim
obligations >= 1 and discharged == obligations; tier/property_id match; violations == 0 (the committed record must be
the record of a quiet run on the unchanged tree, never of a property-breaking experiment).
Run before committing evidence (exit 1 on any problem).  Read-only."""
import json
import os
import sys

ROOT = os.path.dirname(os.path.dirname(os.path.abspath(__file__)))


def main():
    man = json.load(open(os.path.join(ROOT, 'MANIFEST.json')))
    want = set(sys.argv[1:])
    schema = None
    try:
        import jsonschema
        sp = '/root/.vp/EVIDENCE.schema.json'
        if os.path.exists(sp):
            schema = json.load(open(sp))
    except ImportError:
        jsonschema = None
    bad = 0
    for c in man['checks']:
        pid = c['property_id']
        if want and pid not in want:
            continue
        p = os.path.join(ROOT, c['evidence_file'])
        probs = []
        try:
            ev = json.load(open(p))
        except Exception as e:  # noqa
            print('%s: INVALID cannot read %s: %s' % (pid, p, e))
            bad += 1
            continue
        if schema is not None:
            for err in jsonschema.Draft202012Validator(schema).iter_errors(ev):
                probs.append('schema: %s at %s' % (err.message[:200], '/'.join(map(str, err.path))))
        cov = ev.get('coverage', {})
        if ev.get('property_id') != pid:
            probs.append('property_id %r != %r' % (ev.get('property_id'), pid))
        cat = c['level_claimed']['category']
        if ev.get('level') != cat:
            probs.append('level %r but MANIFEST claims %r' % (ev.get('level'), cat))
        if cat == 'proof':
            if not isinstance(cov.get('obligations'), int) or cov.get('obligations', 0) < 1:
                probs.append('coverage.obligations = %r < 1' % cov.get('obligations'))
            if cov.get('discharged') != cov.get('obligations'):
                probs.append('coverage.discharged (%r) != obligations (%r)' % (cov.get('discharged'), cov.get('obligations')))
            if not str(cov.get('checker_cmd', '')).strip():
                probs.append('coverage.checker_cmd empty')
            if not isinstance(cov.get('trusted_base'), list):
                probs.append('coverage.trusted_base missing')
        if not cov.get('samples'):
            probs.append('coverage.samples empty')
        if ev.get('violations', 0) != 0:
            probs.append('violations = %r: this is the record of a run that reported a violation' % ev.get('violations'))
        if cov.get('undecided_units'):
            probs.append('undecided units: %s' % str(cov['undecided_units'])[:200])
        if probs:
            bad += 1
            print('%s: INVALID' % pid)
            for q in probs:
                print('   ' + q)
        else:
            print('%s: ok tier=%s level=%s obligations=%s discharged=%s bounded=%d wall=%ss' % (
                pid, ev.get('tier'), ev.get('level'), cov.get('obligations'), cov.get('discharged'),
                len(cov.get('bounded_obligations', [])), ev.get('wall_s')))
    return 1 if bad else 0


if __name__ == '__main__':
    sys.exit(main())
