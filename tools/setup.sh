#!/bin/sh
# MANIFEST.setup_cmd: optional warm-up (offline).  Pre-builds the dependency graph of the bounded native
# border crates (real parol crates as path dependencies) into /var/tmp/parol-verif-cache so that the first
# quick check does not pay the cold build.  Everything is rebuilt from /repo's working tree by the checks
# themselves; a failure here is not fatal.
cd "$(dirname "$0")/.." || exit 0
export CARGO_NET_OFFLINE=true
python3 - <<'PY' || true
import glob, json, os, sys, tempfile, shutil
sys.path.insert(0, os.getcwd())
from vx.native_backend import build_native
work = tempfile.mkdtemp(prefix='parol-verif.', dir='/var/tmp')
try:
    for p in sorted(glob.glob('units/*/unit.json')):
        u = json.load(open(p)); u['dir'] = os.path.dirname(os.path.abspath(p))
        if u.get('backend') == 'native':
            exe, err, t = build_native(u, work)
            print('setup: %s %s (%.0f s)' % (u['name'], 'built' if exe else 'FAILED ' + err[-300:], t))
finally:
    shutil.rmtree(work, ignore_errors=True)
PY
exit 0
