#!/usr/bin/env python3
"""Runs every seeded change of /verif/seeded/<id>/ against the registered quick check of its property.
A scratch git worktree of /repo (outside /repo and /verif) receives the patch; the check runs with VERIF_REPO pointing at
it (evidence goes to the git-ignored evidence-scratch/); the worktree is removed afterwards.  Writes seeded/RESULTS.json.
usage: tools/seed_sweep.py [id ...]"""
import json, os, re, subprocess, sys, time
ROOT = os.path.dirname(os.path.dirname(os.path.abspath(__file__)))
WT = '/var/tmp/parol-seed-sweep'


def sh(cmd, **kw):
    return subprocess.run(cmd, shell=True, capture_output=True, text=True, **kw)


def main():
    ids = sys.argv[1:] or sorted(os.listdir(os.path.join(ROOT, 'seeded')))
    ids = [i for i in ids if os.path.isdir(os.path.join(ROOT, 'seeded', i))]
    sh('git -C /repo worktree remove --force %s' % WT)
    r = sh('git -C /repo worktree add --detach %s HEAD' % WT)
    if r.returncode != 0:
        print(r.stderr)
        return 2
    res_path = os.path.join(ROOT, 'seeded', 'RESULTS.json')
    results = json.load(open(res_path)) if os.path.exists(res_path) else {}
    try:
        for sid in ids:
            d = os.path.join(ROOT, 'seeded', sid)
            meta = json.load(open(os.path.join(d, 'meta.json')))
            prop = meta['property']
            sh('git -C %s checkout -- . && git -C %s clean -fdq' % (WT, WT))
            a = sh('git -C %s apply %s' % (WT, os.path.join(d, 'patch.diff')))
            if a.returncode != 0:
                results[sid] = {'property': prop, 'status': 'patch-does-not-apply', 'detail': a.stderr[-300:]}
                continue
            t0 = time.time()
            c = sh('./check %s --tier quick' % prop, cwd=ROOT, env=dict(os.environ, VERIF_REPO=WT, VERIF_SEED='1'))
            out = c.stdout + c.stderr
            vio = re.findall(r'^VIOLATION property=\S+ replay=\S+/([^/\s]+)\.json( no-failing-input-found)?', out, re.M)
            obl = re.findall(r'failed obligation: (.*?)\s+\[', out)
            status = {0: 'MISSED (check exits 0)', 1: 'caught', 2: 'undecided (exit 2)'}.get(c.returncode, 'rc=%d' % c.returncode)
            results[sid] = {'property': prop, 'status': status, 'exit': c.returncode, 'wall_s': round(time.time() - t0, 1),
                            'failed_obligations': obl[:6], 'replays': [v[0] for v in vio][:6],
                            'with_failing_input': any(not v[1] for v in vio), 'verif_commit': sh('git -C %s rev-parse --short HEAD' % ROOT).stdout.strip()}
            print('%-8s %-4s %-24s %s' % (sid, prop, status, '; '.join(obl[:2])[:150]), flush=True)
            json.dump(results, open(res_path, 'w'), indent=1, sort_keys=True)
    finally:
        sh('git -C /repo worktree remove --force %s' % WT)
    return 0


if __name__ == '__main__':
    sys.exit(main())
