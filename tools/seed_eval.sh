#!/bin/sh
# tools/seed_eval.sh <prop> <patch.diff> [tier]: apply a seeded change to /repo, run the check, undo it straight afterwards
P=$1; PATCH=$2; TIER=${3:-quick}
cd /repo || exit 2
if [ -n "$(git status --porcelain --untracked-files=no)" ]; then echo "/repo is dirty"; exit 2; fi
git apply "$PATCH" || { echo "patch does not apply"; exit 2; }
cd /verif && ./check "$P" --tier "$TIER"; RC=$?
git -C /repo checkout -- . 
echo "seed_eval rc=$RC"
exit $RC
