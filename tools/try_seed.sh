#!/bin/sh
# try_seed.sh <worktree> <A|B> <Cxx> [tier]  - run ./check Cxx against the worktree with the seeded change applied (evidence goes to evidence-scratch/)
WT="$1"; X="$2"; ID="$3"; TIER="${4:-quick}"
cd "$WT" || exit 2
git checkout -- . ; git apply "${SEED_DIR:-seed_out}/$X.patch.diff" || exit 2
cd /verif && VERIF_REPO="$WT" timeout 3000 ./check "$ID" --tier "$TIER" > "$WT/${SEED_DIR:-seed_out}/$X.check_$TIER.log" 2>&1; e=$?
echo "check_exit=$e" >> "$WT/${SEED_DIR:-seed_out}/$X.check_$TIER.log"
cd "$WT" && git checkout -- .
grep -E "^VIOLATION|check_exit|KNOWN|UNDECIDED" "$WT/${SEED_DIR:-seed_out}/$X.check_$TIER.log" | head
