#!/usr/bin/env python3
"""Runs the registered quick checks against every behaviour-preserving refactoring of /verif/harmless/<id>/ (false-alarm test).
Exit 1 of a check on such a tree is a FALSE ALARM; exit 0 (verified) and exit 2 (undecided) are acceptable answers.
usage: tools/harmless_sweep.py [id ...]      writes harmless/RESULTS.json"""
import json, os, re, subprocess, sys, time
ROOT = os.path.dirname(os.path.dirname(os.path.abspath(__file__)))
WT = '/var/tmp/parol-harmless-sweep'


def sh(cmd, **kw):
    return subprocess.run(cmd, shell=True, capture_output=True, text=True, **kw)


def main():
    ids = sys.argv[1:] or sorted(d for d in os.listdir(os.path.join(ROOT, 'harmless')) if os.path.isdir(os.path.join(ROOT, 'harmless', d)))
    sh('git -C /repo worktree remove --force %s' % WT)
    if sh('git -C /repo worktree add --detach %s HEAD' % WT).returncode != 0:
        return 2
    res_path = os.path.join(ROOT, 'harmless', 'RESULTS.json')
    results = json.load(open(res_path)) if os.path.exists(res_path) else {}
    alarms = 0
    try:
        for hid in ids:
            d = os.path.join(ROOT, 'harmless', hid)
            meta = json.load(open(os.path.join(d, 'meta.json')))
            props = sorted(meta.get('check_results', {}).keys()) or [meta['property_of_the_anchor']]
            sh('git -C %s checkout -- . && git -C %s clean -fdq' % (WT, WT))
            if sh('git -C %s apply %s' % (WT, os.path.join(d, 'patch.diff'))).returncode != 0:
                results[hid] = {'status': 'patch-does-not-apply'}
                continue
            out = {}
            for prop in props:
                c = sh('./check %s --tier quick' % prop, cwd=ROOT, env=dict(os.environ, VERIF_REPO=WT, VERIF_SEED='1'))
                reason = (re.findall(r'^UNDECIDED property=\S+ (.*)', c.stdout, re.M) or [''])[0][:220]
                out[prop] = {'exit': c.returncode, 'reason': reason}
                if c.returncode == 1:
                    alarms += 1
                print('%-10s %-4s exit=%d %s' % (hid, prop, c.returncode, 'FALSE ALARM' if c.returncode == 1 else reason[:100]), flush=True)
            results[hid] = out
            json.dump(results, open(res_path, 'w'), indent=1, sort_keys=True)
    finally:
        sh('git -C /repo worktree remove --force %s' % WT)
    print('false alarms: %d' % alarms)
    return 1 if alarms else 0


if __name__ == '__main__':
    sys.exit(main())
