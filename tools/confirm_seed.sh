#!/bin/sh
# confirm_seed.sh <worktree> <A|B|..>   - confirm a seeded change: suite passes with it, demo fails with it, demo passes without it
# The demo diff must add crates/<crate>/tests/<name>.rs (integration test) - or pass DEMO_CMD="cargo test ..." explicitly.
WT="$1"; X="$2"; cd "$WT" || exit 2
OUT="$WT/${SEED_DIR:-seed_out}/$X.confirm.txt"; : > "$OUT"
say() { echo "$@" | tee -a "$OUT"; }
git checkout -- . ; git clean -fdq -e 'seed_out*'
git apply "${SEED_DIR:-seed_out}/$X.patch.diff" || { say "patch does not apply"; exit 2; }
say "== full suite with change $X"
cargo nextest run --workspace --no-fail-fast --test-threads 6 --offline --build-jobs 6 > "$OUT.suite.log" 2>&1; s=$?
grep -E "^\s*Summary|tests run" "$OUT.suite.log" | tail -2 | tee -a "$OUT"
say "suite_exit=$s"
git apply "${SEED_DIR:-seed_out}/$X.demo.diff" || { say "demo does not apply on changed tree"; }
if [ -z "$DEMO_CMD" ]; then
  f=$(grep -E '^\+\+\+ b/crates/[^/]+/tests/[^/]+\.rs' "${SEED_DIR:-seed_out}/$X.demo.diff" | head -1 | sed 's#^+++ b/##')
  crate=$(echo "$f" | cut -d/ -f2); t=$(basename "$f" .rs)
  pkg=$(grep -m1 '^name' crates/$crate/Cargo.toml | sed 's/.*"\(.*\)".*/\1/')
  DEMO_CMD="cargo nextest run -p $pkg --test $t --offline --build-jobs 6 --no-fail-fast"
fi
say "== demo with change: $DEMO_CMD"
sh -c "$DEMO_CMD" > "$OUT.demo_with.log" 2>&1; d1=$?
grep -E "Summary|tests run|test result|FAIL|panicked" "$OUT.demo_with.log" | head -6 | tee -a "$OUT"
say "demo_with_exit=$d1"
git apply -R "${SEED_DIR:-seed_out}/$X.patch.diff" || { say "cannot revert patch"; exit 2; }
say "== demo without change"
sh -c "$DEMO_CMD" > "$OUT.demo_without.log" 2>&1; d2=$?
grep -E "Summary|tests run|test result" "$OUT.demo_without.log" | head -3 | tee -a "$OUT"
say "demo_without_exit=$d2"
git checkout -- . ; git clean -fdq -e 'seed_out*'
if [ $s -eq 0 ] && [ $d1 -ne 0 ] && [ $d2 -eq 0 ]; then say "CONFIRMED $X"; exit 0; else say "NOT-CONFIRMED $X"; exit 1; fi
