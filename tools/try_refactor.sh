#!/bin/sh
# try_refactor.sh <worktree> <R1..> <Cxx> [more Cxx..]  - run ./check against a behaviour-preserving refactoring; exit 1 of a check = FALSE ALARM
WT="$1"; X="$2"; shift 2
cd "$WT" || exit 2
git checkout -- . ; git apply "${REF_DIR:-seed_out3}/$X.patch.diff" || { echo "patch does not apply"; exit 2; }
for ID in "$@"; do
  cd /verif && VERIF_REPO="$WT" timeout 3000 ./check "$ID" --tier quick > "$WT/${REF_DIR:-seed_out3}/$X.check_$ID.log" 2>&1; e=$?
  echo "$X $ID exit=$e $(grep -E '^VIOLATION|^UNDECIDED' "$WT/${REF_DIR:-seed_out3}/$X.check_$ID.log" | head -2 | cut -c1-260)"
done
cd "$WT" && git checkout -- .
