#!/usr/bin/env python3
"""Regenerates /verif/MANIFEST.json from the claims below + DESIGN.md section 5 (not applicable)."""
import json, os, re
ROOT = os.path.dirname(os.path.dirname(os.path.abspath(__file__)))

CLAIMS = json.load(open(os.path.join(ROOT, 'tools', 'claims.json')))

INTERIM = {'C17': 'claimed in DESIGN.md (partial); the Kani unit is being validated in this session and is not registered yet'}

def not_applicable():
    txt = open(os.path.join(ROOT, 'DESIGN.md')).read()
    sec = txt[txt.index('## 5. Not applicable'):txt.index('## 6.')]
    out = {}
    for m in re.finditer(r'^\* \*\*(C\d+)\*\* (.*?)(?=^\* \*\*C\d+|\Z)', sec, re.S | re.M):
        out[m.group(1)] = ' '.join(m.group(2).split())
    return out

def main():
    na = not_applicable()
    props = [json.loads(l)['id'] for l in open(os.path.join(ROOT, 'properties.jsonl'))]
    checks = []
    for c in CLAIMS:
        pid = c['property_id']
        checks.append({
            'property_id': pid,
            'quick_cmd': './check %s --tier quick' % pid,
            'thorough_cmd': './check %s --tier thorough' % pid,
            'evidence_file': 'evidence/%s.json' % pid,
            'replay_cmd_template': './check %s --replay {path}' % pid,
            'engine': c['engine'],
            'level_claimed': {'category': 'proof', 'text': c['level_text'], 'design_ref': c['design_ref']},
            'level_note': c['level_note'],
            'technique': c['technique'],
        })
    claimed = {c['property_id'] for c in CLAIMS}
    m = {
        'version': 1,
        'setup_cmd': './tools/setup.sh',
        'hooks': {
            'guard': 'parol_verif',
            'enable': 'no hook is needed: the functions under contract are extracted mechanically from /repo\'s working tree on every run (vx/rsx.py); the guard name is reserved and unused',
            'baseline_off_cmd': 'cd /repo && cargo nextest run --workspace --no-fail-fast --test-threads 8 --offline',
            'source_commits': [],
            'add_only': True,
        },
        'engines': [
            {'name': 'vx-verus', 'path': 'vx/verus_backend.py', 'serves_properties': ['C01', 'C02', 'C03', 'C08', 'C12', 'C13', 'C14', 'C16', 'C17', 'C19', 'C20', 'C31'],
             'kind_free_text': 'Verus 0.2026.09.13 (Z3) on real function text extracted from /repo each run, contract clauses inserted from units/*/unit.vx'},
            {'name': 'vx-native-bounded', 'path': 'vx/native_backend.py', 'serves_properties': ['C01', 'C02', 'C03', 'C08', 'C12', 'C13', 'C14', 'C16', 'C17', 'C19', 'C20', 'C31'],
             'kind_free_text': 'bounded stand-in only: exhaustive native enumeration of a stated small input space against the real crates (path dependency on /repo) for callee contracts the verifiers cannot reach; never counted as proved'},
            {'name': 'vx-kani', 'path': 'vx/kani_backend.py', 'serves_properties': ['C17', 'C32'],
             'kind_free_text': 'Kani 0.68 / CBMC 6.11 function contracts and full-domain harnesses on verbatim copies of the real source files'},
        ],
        'checks': checks,
        'not_applicable': [{'property_id': p, 'reason': na.get(p, INTERIM.get(p, 'see DESIGN.md section 5'))} for p in props if p not in claimed],
        'notes': 'Contract-based deductive verification of the real code. exit 0 = all obligations discharged; exit 1 = VIOLATION line(s); exit 2 = UNDECIDED (anchor lost, unsupported construct, resource limit, machinery self-test failed) - never an alarm. Fixed defects are listed in known_findings.json.',
    }
    json.dump(m, open(os.path.join(ROOT, 'MANIFEST.json'), 'w'), indent=1)
    print('claimed', sorted(claimed), 'not_applicable', len(m['not_applicable']))

if __name__ == '__main__':
    main()
