#!/usr/bin/env python3
"""Runs the mutant self-test of one Verus unit (what the thorough tier does for it) and prints one line per mutant."""
import glob, json, os, re, sys, tempfile, shutil
ROOT = os.path.dirname(os.path.dirname(os.path.abspath(__file__)))
sys.path.insert(0, ROOT)
from vx.unit import parse_sidecar, assemble
from vx.rsx import RsxError
import vx.verus_backend as VB
unit = sys.argv[1]
only = sys.argv[2:] 
sc = parse_sidecar(os.path.join(ROOT, 'units', unit, 'unit.vx'))
work = tempfile.mkdtemp(prefix='parol-verif.', dir='/var/tmp')
bad = 0
try:
    for mp in sorted(glob.glob(os.path.join(ROOT, 'units', unit, 'mutants', '*.json'))):
        if only and not any(o in mp for o in only):
            continue
        m = json.load(open(mp)); hits = [0]
        def mut(path, text, m=m, hits=hits):
            if m.get('item') and m['item'] not in path:
                return None
            new, n = re.subn(m['find'], m['replace'], text, count=m.get('count', 1), flags=re.S)
            hits[0] += n
            return new
        try:
            asm = assemble(sc, mutate=mut)
        except RsxError as e:
            print('%-32s anchor-lost %s' % (os.path.basename(mp), e)); bad += 1; continue
        if hits[0] == 0:
            print('%-32s PATTERN-NOT-FOUND' % os.path.basename(mp)); bad += 1; continue
        r = VB.run_verus(asm, work, unit + '_mut')
        ok = (r.status == 'failed' and any(f.kind in ('contract', 'safety', 'hint') for f in r.failures)) if m.get('expect', 'fail') == 'fail' else r.status == 'verified'
        if not ok: bad += 1
        print('%-32s expect=%-4s status=%-9s %s %s' % (os.path.basename(mp), m.get('expect', 'fail'), r.status, 'OK' if ok else 'UNEXPECTED', ([f.obligation for f in r.failures][:2] if r.failures else r.reason[:200])))
finally:
    shutil.rmtree(work, ignore_errors=True)
sys.exit(1 if bad else 0)
